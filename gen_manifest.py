#!/usr/bin/env python3
"""Regenerates MANIFEST.json from props.py (claimed checks) and NA (not applicable)."""
import json, os, sys
HERE = os.path.dirname(os.path.abspath(__file__))
sys.path.insert(0, HERE)
import props

BASE = json.load(open("/root/.vp/BASELINE.json"))["cmd"] if os.path.exists("/root/.vp/BASELINE.json") else ""
checks = []
for pid in sorted(props.PROPS):
    P = props.PROPS[pid]
    if P.get("disabled"):
        continue
    c = {
        "property_id": pid,
        "quick_cmd": "./check %s --tier quick" % pid,
        "thorough_cmd": "./check %s --tier thorough" % pid,
        "evidence_file": "evidence/%s.json" % pid,
        "replay_cmd_template": "./check replay {path}",
        "engine": "gosym",
        "level_claimed": {
            "category": "model_checking",
            "text": P.get("level_text", "bounded symbolic execution of the real Go functions (go/ssa) with every branch and assertion decided by an SMT solver; holds for every input inside the stated bounds, says nothing outside them"),
            "design_ref": P.get("design_ref", "DESIGN.md §5 " + pid),
        },
        "level_note": P.get("level_note", "trusted: the gosym interpreter and the environment models of DESIGN §4 (validated per run by replaying sampled paths natively); bounds: " + (P["bounds"]["quick"] if isinstance(P.get("bounds"), dict) else str(P.get("bounds", ""))) + "; outside the claim: " + P.get("outside", "")),
        "technique": P.get("technique", "SMT-decided bounded symbolic execution of the real code (go/ssa -> SMT-LIB, z3/cvc5), native replay of counterexamples"),
    }
    checks.append(c)
na = [{"property_id": k, "reason": v} for k, v in sorted(props.NOT_APPLICABLE.items()) if k not in props.PROPS or props.PROPS[k].get("disabled")]
m = {
    "version": 1,
    "setup_cmd": "cd engine && GOTOOLCHAIN=local PATH=/opt/veriftools/go1.26.8/bin:$PATH GOFLAGS=-mod=mod GOPROXY=off GOSUMDB=off go build -o ../bin/gosym .",
    "hooks": {
        "guard": "verif",
        "enable": "no source hooks: harnesses are injected in-package through go/packages Overlay (symbolic run) and go test -overlay (native replay)",
        "baseline_off_cmd": "cd /repo && go test -mod=mod -json -vet=off -count=1 -timeout 25m ./...",
        "source_commits": [],
        "add_only": True,
    },
    "engines": [{"name": "gosym", "path": "engine", "serves_properties": [c["property_id"] for c in checks],
                 "kind_free_text": "symbolic interpreter for go/ssa (fork of x/tools go/ssa/interp v0.50.0) + SMT-LIB over z3 5.1 / cvc5 1.0.3; DFS by re-execution with decision prefixes; deterministic fibers"}],
    "checks": checks,
    "not_applicable": na,
    "notes": "exit 2 from a check means the check itself could not conclude (inconclusive path, solver unknown, time-out, non-reproducing counterexample) and is treated as a broken check, never as a pass",
}
json.dump(m, open(os.path.join(HERE, "MANIFEST.json"), "w"), indent=1)
print("checks:", [c["property_id"] for c in checks], "na:", [n["property_id"] for n in na])
