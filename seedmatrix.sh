#!/bin/bash
# usage: seedmatrix.sh [seed-dir-name ...]   (default: all under /verif/seeded)
# Runs, for every seeded change, the quick check of the property it breaks (and of the
# extra properties listed in meta "also") against a scratch worktree with the change applied.
# Never touches /repo's working tree or /verif/evidence.  The checks run in "first violations are enough"
# mode (VERIF_STOP_VIOL: the engine stops exploring after 3 violations outside the known findings and the
# driver skips the remaining harness entries once one is reported); set VERIF_STOP_VIOL=0 for full runs.
WT=/tmp/seedrepo-$$
EV=/tmp/seedev-$$
git -C /repo worktree add -q $WT HEAD || exit 9
mkdir -p $EV
cd /verif
seeds="$@"; [ -z "$seeds" ] && seeds=$(ls seeded | grep -E '^C[0-9]+-(r[0-9])?m[0-9]+$')
for s in $seeds; do
  p=${s%%-*}
  git -C $WT checkout -q -- . 
  if ! git -C $WT apply /verif/seeded/$s/patch.diff 2>/dev/null; then echo "$s: PATCH DOES NOT APPLY"; continue; fi
  extra=$(python3 -c "import json;print(' '.join(json.load(open('/verif/seeded/$s/meta.json')).get('also',[])))")
  for c in $p $extra; do
    if ! grep -q "\"$c\"" /verif/MANIFEST.json; then echo "$s: $c not claimed"; continue; fi
    out=$(VERIF_REPO=$WT VERIF_EVIDENCE=$EV VERIF_STOP_VIOL=${VERIF_STOP_VIOL:-3} ./check $c 2>&1); rc=$?
    first=$(echo "$out" | grep -E "^  harness" | head -1 | cut -c1-160)
    echo "$s: check $c rc=$rc $first"
  done
done
git -C /repo worktree remove --force $WT; rm -rf $EV
