#!/bin/bash
# usage: confirm_seed.sh <Cxx> <mN>
# Confirms a seeded change in a scratch worktree of /repo HEAD: (1) applies, (2) full suite passes with it,
# (3) demo fails with it, (4) demo passes without it.  On success copies it to /verif/seeded/<Cxx>-<mN>/.
P=$1; M=$2
SRC=${SEEDSRC:-/tmp/seed-out}/$P/$M
WT=/tmp/confirm/$P-${SEEDTAG}$M
mkdir -p /tmp/confirm
git -C /repo worktree remove --force $WT 2>/dev/null
git -C /repo worktree add -q $WT HEAD || exit 9
cd $WT
res() { echo "CONFIRM $P $M: $*"; }
if ! git apply $SRC/patch.diff; then res "patch does not apply to HEAD"; git -C /repo worktree remove --force $WT; exit 1; fi
suite=$(go test -mod=mod -vet=off -count=1 ./... 2>&1); src=$?
if [ $src -ne 0 ]; then res "existing suite FAILS with the change"; echo "$suite" | tail -5; git -C /repo worktree remove --force $WT; exit 1; fi
dir=$(python3 -c "import json;print(json.load(open('$SRC/meta.json')).get('demo_pkg_dir','.'))")
cmd=$(python3 -c "import json;print(json.load(open('$SRC/meta.json')).get('demo_cmd',''))")
for f in $SRC/*_test.go; do cp $f $WT/$dir/; done
run=$(echo "$cmd" | grep -o "\-run [^ ]*" | head -1 | sed "s/'//g")
with=$(go test -mod=mod -vet=off -count=1 $run ./$dir/ 2>&1); wrc=$?
git apply -R $SRC/patch.diff
without=$(go test -mod=mod -vet=off -count=1 $run ./$dir/ 2>&1); worc=$?
if [ $wrc -ne 0 ] && [ $worc -eq 0 ]; then
  res "OK (suite passes with change; demo fails with, passes without)"
  D=/verif/seeded/$P-${SEEDTAG}$M; mkdir -p $D; cp $SRC/patch.diff $SRC/*_test.go $D/ 
  python3 - <<PY
import json
m=json.load(open('$SRC/meta.json'))
m['confirmed']={'worktree_of':'$(git -C /repo rev-parse --short HEAD)','suite_with_change':'pass','demo_with_change':'FAIL','demo_without_change':'pass','demo_run':'go test -mod=mod -vet=off -count=1 $run ./$dir/'}
json.dump(m,open('$D/meta.json','w'),indent=1)
PY
else
  res "NOT CONFIRMED (demo with change rc=$wrc, without rc=$worc)"; echo "$with" | tail -5; echo "$without" | tail -5
fi
cd /; git -C /repo worktree remove --force $WT
