#!/bin/bash
# usage: seedtest.sh <patch.diff> <check-id>...   applies the patch to /repo, runs the quick checks, reverts.
patch="$1"; shift
cd /repo || exit 9
if ! git diff --quiet; then echo "/repo dirty"; exit 9; fi
if ! git apply "$patch"; then echo "PATCH DOES NOT APPLY"; exit 8; fi
cd /verif
for c in "$@"; do
  out=$(./check $c ${TIER:+--tier $TIER} 2>&1); rc=$?
  echo "== $c rc=$rc"; echo "$out" | grep -E "^(VIOLATION|KNOWN|INCONCLUSIVE|  harness)" | head -8
done
git -C /repo checkout -- . ; git -C /verif checkout -- evidence 2>/dev/null
