package myinterp

// A small evaluator of the engine's own SMT terms under a concrete model.
// It is only an accelerator: at a symbolic branch the side that the last
// model satisfies is known to be feasible without asking the solver, so one
// query (for the other side) is enough.  The other side is always decided by
// the solver, and every reported violation is a solver verdict, so a mistake
// here could only make the engine walk an infeasible path, never lose or
// invent a result.  Anything the evaluator does not know (floating point,
// uninterpreted functions, unknown names) makes it give up for that term.

import (
	"strconv"
	"strings"
)

type evalVal struct {
	isBool bool
	b      bool
	v      uint64
	w      int
}

type evalFail struct{}

func mask(w int) uint64 {
	if w >= 64 {
		return ^uint64(0)
	}
	return (uint64(1) << uint(w)) - 1
}

func sext(v uint64, w int) int64 {
	if w >= 64 {
		return int64(v)
	}
	if v&(uint64(1)<<uint(w-1)) != 0 {
		return int64(v | ^mask(w))
	}
	return int64(v)
}

// evalTerm evaluates term under the model; ok=false if it cannot.
func (e *Explorer) evalTerm(term string) (res evalVal, ok bool) {
	defer func() {
		if r := recover(); r != nil {
			if _, is := r.(evalFail); is {
				ok = false
				return
			}
			panic(r)
		}
	}()
	p := &evalParser{s: term, e: e}
	res = p.expr()
	return res, true
}

type evalParser struct {
	s   string
	pos int
	e   *Explorer
}

func (p *evalParser) ws() {
	for p.pos < len(p.s) && (p.s[p.pos] == ' ' || p.s[p.pos] == '\n' || p.s[p.pos] == '\t') {
		p.pos++
	}
}

func (p *evalParser) atom() string {
	p.ws()
	st := p.pos
	for p.pos < len(p.s) && p.s[p.pos] != ' ' && p.s[p.pos] != ')' && p.s[p.pos] != '(' && p.s[p.pos] != '\n' {
		p.pos++
	}
	return p.s[st:p.pos]
}

func (p *evalParser) expect(c byte) {
	p.ws()
	if p.pos >= len(p.s) || p.s[p.pos] != c {
		panic(evalFail{})
	}
	p.pos++
}

func (p *evalParser) peekClose() bool {
	p.ws()
	return p.pos < len(p.s) && p.s[p.pos] == ')'
}

func bvv(v uint64, w int) evalVal { return evalVal{v: v & mask(w), w: w} }
func bo(b bool) evalVal          { return evalVal{isBool: true, b: b} }

func (p *evalParser) expr() evalVal {
	p.ws()
	if p.pos >= len(p.s) {
		panic(evalFail{})
	}
	if p.s[p.pos] != '(' {
		a := p.atom()
		switch {
		case a == "true":
			return bo(true)
		case a == "false":
			return bo(false)
		case strings.HasPrefix(a, "#x"):
			v, err := strconv.ParseUint(a[2:], 16, 64)
			if err != nil {
				panic(evalFail{})
			}
			return bvv(v, 4*(len(a)-2))
		case strings.HasPrefix(a, "#b"):
			v, err := strconv.ParseUint(a[2:], 2, 64)
			if err != nil {
				panic(evalFail{})
			}
			return bvv(v, len(a)-2)
		}
		mv, ok := p.e.model[a]
		if !ok {
			panic(evalFail{})
		}
		return mv
	}
	p.pos++ // (
	p.ws()
	if p.pos < len(p.s) && p.s[p.pos] == '(' {
		// ((_ extract i j) x), ((_ zero_extend n) x), ((_ sign_extend n) x), ((_ to_fp ..) ..)
		p.pos++
		if p.atom() != "_" {
			panic(evalFail{})
		}
		op := p.atom()
		switch op {
		case "extract":
			hi, _ := strconv.Atoi(p.atom())
			lo, _ := strconv.Atoi(p.atom())
			p.expect(')')
			x := p.expr()
			p.expect(')')
			return bvv(x.v>>uint(lo), hi-lo+1)
		case "zero_extend":
			n, _ := strconv.Atoi(p.atom())
			p.expect(')')
			x := p.expr()
			p.expect(')')
			return bvv(x.v, x.w+n)
		case "sign_extend":
			n, _ := strconv.Atoi(p.atom())
			p.expect(')')
			x := p.expr()
			p.expect(')')
			return bvv(uint64(sext(x.v, x.w)), x.w+n)
		}
		panic(evalFail{})
	}
	op := p.atom()
	switch op {
	case "_":
		// (_ bvN w)
		a := p.atom()
		if !strings.HasPrefix(a, "bv") {
			panic(evalFail{})
		}
		v, err := strconv.ParseUint(a[2:], 10, 64)
		if err != nil {
			panic(evalFail{})
		}
		w, _ := strconv.Atoi(p.atom())
		p.expect(')')
		return bvv(v, w)
	case "not":
		x := p.expr()
		p.expect(')')
		if !x.isBool {
			panic(evalFail{})
		}
		return bo(!x.b)
	case "and", "or":
		r := op == "and"
		for !p.peekClose() {
			x := p.expr()
			if !x.isBool {
				panic(evalFail{})
			}
			if op == "and" {
				r = r && x.b
			} else {
				r = r || x.b
			}
		}
		p.expect(')')
		return bo(r)
	case "ite":
		c := p.expr()
		a := p.expr()
		b := p.expr()
		p.expect(')')
		if !c.isBool {
			panic(evalFail{})
		}
		if c.b {
			return a
		}
		return b
	case "=":
		a := p.expr()
		b := p.expr()
		p.expect(')')
		if a.isBool != b.isBool {
			panic(evalFail{})
		}
		if a.isBool {
			return bo(a.b == b.b)
		}
		return bo(a.v == b.v)
	case "bvnot", "bvneg":
		x := p.expr()
		p.expect(')')
		if op == "bvnot" {
			return bvv(^x.v, x.w)
		}
		return bvv(-x.v, x.w)
	}
	// binary bit-vector operators
	switch op {
	case "bvadd", "bvsub", "bvmul", "bvand", "bvor", "bvxor", "bvshl", "bvlshr", "bvashr", "bvudiv", "bvurem", "bvsdiv", "bvsrem",
		"bvult", "bvule", "bvugt", "bvuge", "bvslt", "bvsle", "bvsgt", "bvsge":
		a := p.expr()
		b := p.expr()
		p.expect(')')
		if a.isBool || b.isBool || a.w != b.w {
			panic(evalFail{})
		}
		w := a.w
		switch op {
		case "bvadd":
			return bvv(a.v+b.v, w)
		case "bvsub":
			return bvv(a.v-b.v, w)
		case "bvmul":
			return bvv(a.v*b.v, w)
		case "bvand":
			return bvv(a.v&b.v, w)
		case "bvor":
			return bvv(a.v|b.v, w)
		case "bvxor":
			return bvv(a.v^b.v, w)
		case "bvshl":
			if b.v >= uint64(w) {
				return bvv(0, w)
			}
			return bvv(a.v<<b.v, w)
		case "bvlshr":
			if b.v >= uint64(w) {
				return bvv(0, w)
			}
			return bvv(a.v>>b.v, w)
		case "bvashr":
			s := sext(a.v, w)
			if b.v >= uint64(w) {
				if s < 0 {
					return bvv(^uint64(0), w)
				}
				return bvv(0, w)
			}
			return bvv(uint64(s>>b.v), w)
		case "bvudiv":
			if b.v == 0 {
				return bvv(^uint64(0), w)
			}
			return bvv(a.v/b.v, w)
		case "bvurem":
			if b.v == 0 {
				return bvv(a.v, w)
			}
			return bvv(a.v%b.v, w)
		case "bvsdiv", "bvsrem":
			panic(evalFail{}) // corner cases (division by zero, overflow): leave to the solver
		case "bvult":
			return bo(a.v < b.v)
		case "bvule":
			return bo(a.v <= b.v)
		case "bvugt":
			return bo(a.v > b.v)
		case "bvuge":
			return bo(a.v >= b.v)
		case "bvslt":
			return bo(sext(a.v, w) < sext(b.v, w))
		case "bvsle":
			return bo(sext(a.v, w) <= sext(b.v, w))
		case "bvsgt":
			return bo(sext(a.v, w) > sext(b.v, w))
		case "bvsge":
			return bo(sext(a.v, w) >= sext(b.v, w))
		}
	}
	panic(evalFail{})
}
