package myinterp

// UTF-8 decoding of symbolic byte strings.  One step of the decoder (what
// utf8.DecodeRune does) is expressed as solver-decided branches on the byte
// classes of RFC 3629 (Go's acceptance table): the engine then runs the real
// callers (range over a string, strings.ToValidUTF8, utf8.ValidString, the
// validity check protobuf applies to proto3 string fields) over symbolic text.

import (
	"fmt"
	"go/types"
	"unicode/utf8"
)

func byteIn(b value, lo, hi uint8) bool {
	if !isSym(b) {
		x := b.(uint8)
		return x >= lo && x <= hi
	}
	t := lift(b).term
	if lo == hi {
		return X.branch(sym{types.Bool, fmt.Sprintf("(= %s #x%02x)", t, lo)})
	}
	if lo == 0 {
		return X.branch(sym{types.Bool, fmt.Sprintf("(bvule %s #x%02x)", t, hi)})
	}
	return X.branch(sym{types.Bool, fmt.Sprintf("(and (bvuge %s #x%02x) (bvule %s #x%02x))", t, lo, t, hi)})
}

func runeTerm(bs []value, w int) value {
	ext := func(b value, mask uint8) string {
		return fmt.Sprintf("((_ zero_extend 24) (bvand %s #x%02x))", lift(b).term, mask)
	}
	var t string
	switch w {
	case 1:
		t = ext(bs[0], 0x7F)
	case 2:
		t = fmt.Sprintf("(bvor (bvshl %s #x00000006) %s)", ext(bs[0], 0x1F), ext(bs[1], 0x3F))
	case 3:
		t = fmt.Sprintf("(bvor (bvshl %s #x0000000c) (bvor (bvshl %s #x00000006) %s))", ext(bs[0], 0x0F), ext(bs[1], 0x3F), ext(bs[2], 0x3F))
	default:
		t = fmt.Sprintf("(bvor (bvshl %s #x00000012) (bvor (bvshl %s #x0000000c) (bvor (bvshl %s #x00000006) %s)))",
			ext(bs[0], 0x07), ext(bs[1], 0x3F), ext(bs[2], 0x3F), ext(bs[3], 0x3F))
	}
	return sym{types.Int32, t}
}

// symDecodeRune: (rune, width) of the first UTF-8 sequence of bs, as utf8.DecodeRune.
func symDecodeRune(bs []value) (value, int) {
	r, w, _ := symDecode(bs)
	return r, w
}

func symDecode(bs []value) (value, int, bool) {
	if len(bs) == 0 {
		return int32(utf8.RuneError), 0, false
	}
	n := len(bs)
	if n > 4 {
		n = 4
	}
	conc := true
	for _, b := range bs[:n] {
		if isSym(b) {
			conc = false
		}
	}
	if conc {
		r, w := utf8.DecodeRune(goBytes(append([]value{}, bs[:n]...)))
		return int32(r), w, !(r == utf8.RuneError && w == 1)
	}
	bad := func() (value, int, bool) { return int32(utf8.RuneError), 1, false }
	cont := func(i int, lo, hi uint8) bool { return len(bs) > i && byteIn(bs[i], lo, hi) }
	b0 := bs[0]
	switch {
	case byteIn(b0, 0x00, 0x7F):
		if !isSym(b0) {
			return int32(b0.(uint8)), 1, true
		}
		return runeTerm(bs, 1), 1, true
	case byteIn(b0, 0xC2, 0xDF):
		if !cont(1, 0x80, 0xBF) {
			return bad()
		}
		return runeTerm(bs, 2), 2, true
	case byteIn(b0, 0xE0, 0xE0):
		if !cont(1, 0xA0, 0xBF) || !cont(2, 0x80, 0xBF) {
			return bad()
		}
		return runeTerm(bs, 3), 3, true
	case byteIn(b0, 0xED, 0xED):
		if !cont(1, 0x80, 0x9F) || !cont(2, 0x80, 0xBF) {
			return bad()
		}
		return runeTerm(bs, 3), 3, true
	case byteIn(b0, 0xE1, 0xEF): // E0 and ED are decided above
		if !cont(1, 0x80, 0xBF) || !cont(2, 0x80, 0xBF) {
			return bad()
		}
		return runeTerm(bs, 3), 3, true
	case byteIn(b0, 0xF0, 0xF0):
		if !cont(1, 0x90, 0xBF) || !cont(2, 0x80, 0xBF) || !cont(3, 0x80, 0xBF) {
			return bad()
		}
		return runeTerm(bs, 4), 4, true
	case byteIn(b0, 0xF4, 0xF4):
		if !cont(1, 0x80, 0x8F) || !cont(2, 0x80, 0xBF) || !cont(3, 0x80, 0xBF) {
			return bad()
		}
		return runeTerm(bs, 4), 4, true
	case byteIn(b0, 0xF1, 0xF3):
		if !cont(1, 0x80, 0xBF) || !cont(2, 0x80, 0xBF) || !cont(3, 0x80, 0xBF) {
			return bad()
		}
		return runeTerm(bs, 4), 4, true
	}
	return bad()
}

// symValidUTF8: utf8.Valid over possibly symbolic bytes (branches per sequence).
func symValidUTF8(bs []value) bool {
	for i := 0; i < len(bs); {
		_, w, ok := symDecode(bs[i:])
		if !ok {
			return false
		}
		i += w
	}
	return true
}

type symStrIter struct {
	b []value
	i int
}

func (it *symStrIter) next() tuple {
	okv := make(tuple, 3)
	if it.i >= len(it.b) {
		okv[0] = false
		return okv
	}
	r, w := symDecodeRune(it.b[it.i:])
	okv[0] = true
	okv[1] = it.i
	okv[2] = r
	it.i += w
	return okv
}

func anySym(bs []value) bool {
	for _, b := range bs {
		if isSym(b) {
			return true
		}
	}
	return false
}

func init() {
	dec := func(bs []value) value {
		r, w := symDecodeRune(bs)
		return tuple{r, w}
	}
	Hooks["unicode/utf8.DecodeRuneInString"] = func(fr *frame, a []value) value {
		bs, _ := strBytes(a[0])
		return dec(bs)
	}
	Hooks["unicode/utf8.DecodeRune"] = func(fr *frame, a []value) value {
		bs, _ := a[0].([]value)
		return dec(bs)
	}
	Hooks["unicode/utf8.ValidString"] = func(fr *frame, a []value) value {
		bs, _ := strBytes(a[0])
		return symValidUTF8(bs)
	}
	// strings.ToValidUTF8(s, replacement): runs of invalid bytes become one replacement
	Hooks["strings.ToValidUTF8"] = func(fr *frame, a []value) value {
		bs, _ := strBytes(a[0])
		repl, _ := strBytes(a[1])
		var out []value
		invalid := false
		for i := 0; i < len(bs); {
			_, w, ok := symDecode(bs[i:])
			if !ok {
				i++
				if !invalid {
					invalid = true
					out = append(out, repl...)
				}
				continue
			}
			invalid = false
			out = append(out, bs[i:i+w]...)
			i += w
		}
		return mkStr(out)
	}
	Hooks["unicode/utf8.RuneCountInString"] = func(fr *frame, a []value) value {
		bs, _ := strBytes(a[0])
		n := 0
		for i := 0; i < len(bs); n++ {
			_, w := symDecodeRune(bs[i:])
			i += w
		}
		return n
	}
	Hooks["unicode/utf8.Valid"] = func(fr *frame, a []value) value {
		bs, _ := a[0].([]value)
		return symValidUTF8(bs)
	}
}

// protoStringsValid: protobuf refuses to marshal a proto3 string field that is
// not valid UTF-8.  Every string reachable from the message is such a field
// (bytes fields are byte slices).
func protoStringsValid(v value) bool {
	switch x := v.(type) {
	case string:
		return utf8.ValidString(x)
	case *symstr:
		return symValidUTF8(x.b)
	case structure:
		for _, e := range x {
			if !protoStringsValid(e) {
				return false
			}
		}
	case array:
		for _, e := range x {
			if !protoStringsValid(e) {
				return false
			}
		}
	case []value:
		for _, e := range x {
			if isSym(e) {
				return true // a byte slice
			}
			if _, isByte := e.(uint8); isByte {
				return true
			}
			if !protoStringsValid(e) {
				return false
			}
		}
	case *value:
		if x != nil {
			return protoStringsValid(*x)
		}
	case iface:
		return protoStringsValid(x.v)
	case map[value]value:
		for k, e := range x {
			if !protoStringsValid(k) || !protoStringsValid(e) {
				return false
			}
		}
	}
	return true
}
