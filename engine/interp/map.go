// Copyright 2013 The Go Authors. All rights reserved.
// Use of this source code is governed by a BSD-style
// license that can be found in the LICENSE file.

package myinterp

// Custom hashtable atop map.
// For use when the key's equivalence relation is not consistent with ==.

// The Go specification doesn't address the atomicity of map operations.
// The FAQ states that an implementation is permitted to crash on
// concurrent map access.

import (
	"go/types"
)

type hashable interface {
	hash(t types.Type) int
	eq(t types.Type, x any) bool
}

type entry struct {
	key   hashable
	value value
	next  *entry
}

// A hashtable atop the built-in map.  Since each bucket contains
// exactly one hash value, there's no need to perform hash-equality
// tests when walking the linked list.  Rehashing is done by the
// underlying map.
type hashmap struct {
	keyType types.Type
	table   map[int]*entry
	length  int // number of entries in map
}

// makeMap returns an empty initialized map of key type kt,
// preallocating space for reserve elements.
func makeMap(kt types.Type, reserve int64) value {
	if usesBuiltinMap(kt) {
		return make(map[value]value, reserve)
	}
	return &hashmap{keyType: kt, table: make(map[int]*entry, reserve)}
}

// delete removes the association for key k, if any.
func (m *hashmap) delete(k hashable) {
	if m != nil {
		hash := k.hash(m.keyType)
		head := m.table[hash]
		if head != nil {
			if k.eq(m.keyType, head.key) {
				m.table[hash] = head.next
				m.length--
				return
			}
			prev := head
			for e := head.next; e != nil; e = e.next {
				if k.eq(m.keyType, e.key) {
					prev.next = e.next
					m.length--
					return
				}
				prev = e
			}
		}
	}
}

// lookup returns the value associated with key k, if present, or
// value(nil) otherwise.
func (m *hashmap) lookup(k hashable) value {
	if m != nil {
		hash := k.hash(m.keyType)
		for e := m.table[hash]; e != nil; e = e.next {
			if k.eq(m.keyType, e.key) {
				return e.value
			}
		}
	}
	return nil
}

// insert updates the map to associate key k with value v.  If there
// was already an association for an eq() (though not necessarily ==)
// k, the previous key remains in the map and its associated value is
// updated.
func (m *hashmap) insert(k hashable, v value) {
	hash := k.hash(m.keyType)
	head := m.table[hash]
	for e := head; e != nil; e = e.next {
		if k.eq(m.keyType, e.key) {
			e.value = v
			return
		}
	}
	m.table[hash] = &entry{
		key:   k,
		value: v,
		next:  head,
	}
	m.length++
}

// len returns the number of key/value associations in the map.
func (m *hashmap) len() int {
	if m != nil {
		return m.length
	}
	return 0
}

// entries returns a rangeable map of entries.
func (m *hashmap) entries() map[int]*entry {
	if m != nil {
		return m.table
	}
	return nil
}
