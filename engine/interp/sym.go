package myinterp

// Symbolic scalars, symbolic byte strings, and the harness intrinsics.

import (
	"fmt"
	"go/token"
	"go/types"
	"math"
	"sort"
	"strings"

	"golang.org/x/tools/go/ssa"
)

// ---- symbolic scalar ----
type sym struct {
	kind types.BasicKind // Go kind (Bool, Int64, Float64, ...)
	term string
}

func isSym(v value) bool { _, ok := v.(sym); return ok }

func bits(k types.BasicKind) int {
	switch k {
	case types.Int8, types.Uint8:
		return 8
	case types.Int16, types.Uint16:
		return 16
	case types.Int32, types.Uint32:
		return 32
	}
	return 64
}
func signed(k types.BasicKind) bool {
	switch k {
	case types.Int, types.Int8, types.Int16, types.Int32, types.Int64:
		return true
	}
	return false
}
func kindOf(v value) types.BasicKind {
	switch v.(type) {
	case bool:
		return types.Bool
	case int:
		return types.Int
	case int8:
		return types.Int8
	case int16:
		return types.Int16
	case int32:
		return types.Int32
	case int64:
		return types.Int64
	case uint:
		return types.Uint
	case uint8:
		return types.Uint8
	case uint16:
		return types.Uint16
	case uint32:
		return types.Uint32
	case uint64:
		return types.Uint64
	case uintptr:
		return types.Uintptr
	case float64:
		return types.Float64
	}
	panic(engineLimit{fmt.Sprintf("kindOf %T", v)})
}

func convInt(k types.BasicKind, x int64) value {
	switch k {
	case types.Int:
		return int(x)
	case types.Int8:
		return int8(x)
	case types.Int16:
		return int16(x)
	case types.Int32:
		return int32(x)
	case types.Int64:
		return x
	case types.Uint:
		return uint(x)
	case types.Uint8:
		return uint8(x)
	case types.Uint16:
		return uint16(x)
	case types.Uint32:
		return uint32(x)
	case types.Uint64:
		return uint64(x)
	case types.Uintptr:
		return uintptr(x)
	}
	panic(engineLimit{"convInt kind"})
}

func lift(v value) sym {
	if s, ok := v.(sym); ok {
		return s
	}
	k := kindOf(v)
	switch x := v.(type) {
	case bool:
		if x {
			return sym{k, "true"}
		}
		return sym{k, "false"}
	case float64:
		return sym{k, fmt.Sprintf("((_ to_fp 11 53) #x%016x)", math.Float64bits(x))}
	}
	var u uint64
	switch x := v.(type) {
	case int:
		u = uint64(x)
	case int8:
		u = uint64(uint8(x))
	case int16:
		u = uint64(uint16(x))
	case int32:
		u = uint64(uint32(x))
	case int64:
		u = uint64(x)
	case uint:
		u = uint64(x)
	case uint8:
		u = uint64(x)
	case uint16:
		u = uint64(x)
	case uint32:
		u = uint64(x)
	case uint64:
		u = x
	case uintptr:
		u = uint64(x)
	}
	return sym{k, fmt.Sprintf("(_ bv%d %d)", u, bits(k))}
}

func symNot(a sym) sym {
	switch a.term {
	case "true":
		return sym{types.Bool, "false"}
	case "false":
		return sym{types.Bool, "true"}
	}
	return sym{types.Bool, "(not " + a.term + ")"}
}

func symAnd(ts []string) sym {
	var keep []string
	for _, t := range ts {
		if t == "false" {
			return sym{types.Bool, "false"}
		}
		if t != "true" {
			keep = append(keep, t)
		}
	}
	switch len(keep) {
	case 0:
		return sym{types.Bool, "true"}
	case 1:
		return sym{types.Bool, keep[0]}
	}
	return sym{types.Bool, "(and " + strings.Join(keep, " ") + ")"}
}

// boolVal turns a sym with a constant term back into a Go bool.
func boolVal(s sym) value {
	switch s.term {
	case "true":
		return true
	case "false":
		return false
	}
	return s
}

func symBinop(op token.Token, x, y value) value {
	a, b := lift(x), lift(y)
	k := a.kind
	f := func(s string) string { return "(" + s + " " + a.term + " " + b.term + ")" }
	if k == types.Bool {
		switch op {
		case token.EQL:
			return sym{types.Bool, f("=")}
		case token.NEQ:
			return sym{types.Bool, "(not " + f("=") + ")"}
		case token.AND, token.LAND:
			return sym{types.Bool, f("and")}
		case token.OR, token.LOR:
			return sym{types.Bool, f("or")}
		}
		panic(engineLimit{"sym bool op " + op.String()})
	}
	if k == types.Float64 {
		g := func(s string) string { return "(" + s + " RNE " + a.term + " " + b.term + ")" }
		switch op {
		case token.LSS:
			return sym{types.Bool, f("fp.lt")}
		case token.GTR:
			return sym{types.Bool, f("fp.gt")}
		case token.LEQ:
			return sym{types.Bool, f("fp.leq")}
		case token.GEQ:
			return sym{types.Bool, f("fp.geq")}
		case token.EQL:
			return sym{types.Bool, f("fp.eq")}
		case token.NEQ:
			return sym{types.Bool, "(not " + f("fp.eq") + ")"}
		case token.ADD:
			return sym{k, g("fp.add")}
		case token.SUB:
			return sym{k, g("fp.sub")}
		case token.MUL:
			return sym{k, g("fp.mul")}
		case token.QUO:
			return sym{k, g("fp.div")}
		}
		panic(engineLimit{"sym float op " + op.String()})
	}
	sg := signed(k)
	pick := func(s, u string) string {
		if sg {
			return s
		}
		return u
	}
	switch op {
	case token.ADD:
		return sym{k, f("bvadd")}
	case token.SUB:
		return sym{k, f("bvsub")}
	case token.MUL:
		return sym{k, f("bvmul")}
	case token.QUO:
		return sym{k, f(pick("bvsdiv", "bvudiv"))}
	case token.REM:
		return sym{k, f(pick("bvsrem", "bvurem"))}
	case token.AND:
		return sym{k, f("bvand")}
	case token.OR:
		return sym{k, f("bvor")}
	case token.XOR:
		return sym{k, f("bvxor")}
	case token.AND_NOT:
		return sym{k, "(bvand " + a.term + " (bvnot " + b.term + "))"}
	case token.SHL, token.SHR:
		// shift count may have a different width: resize to a's width (counts are unsigned or non-negative)
		bt := b.term
		bb, ab := bits(b.kind), bits(a.kind)
		if bb < ab {
			bt = fmt.Sprintf("((_ zero_extend %d) %s)", ab-bb, bt)
		} else if bb > ab {
			// saturate: if any high bit set, shift by width
			bt = fmt.Sprintf("(ite (bvuge %s (_ bv%d %d)) (_ bv%d %d) ((_ extract %d 0) %s))", b.term, ab, bb, ab, ab, ab-1, b.term)
		}
		o := "bvshl"
		if op == token.SHR {
			o = pick("bvashr", "bvlshr")
		}
		return sym{k, "(" + o + " " + a.term + " " + bt + ")"}
	case token.LSS:
		return sym{types.Bool, f(pick("bvslt", "bvult"))}
	case token.GTR:
		return sym{types.Bool, f(pick("bvsgt", "bvugt"))}
	case token.LEQ:
		return sym{types.Bool, f(pick("bvsle", "bvule"))}
	case token.GEQ:
		return sym{types.Bool, f(pick("bvsge", "bvuge"))}
	case token.EQL:
		return sym{types.Bool, f("=")}
	case token.NEQ:
		return sym{types.Bool, "(not " + f("=") + ")"}
	}
	panic(engineLimit{"sym int op " + op.String()})
}

func symConv(dst types.Type, x sym) value {
	b, ok := dst.Underlying().(*types.Basic)
	if !ok {
		panic(engineLimit{"symConv to non-basic " + dst.String()})
	}
	dk := b.Kind()
	if dk == x.kind {
		return x
	}
	if dk == types.String {
		panic(engineLimit{"symbolic integer -> string conversion"})
	}
	if dk == types.Float64 && x.kind != types.Float64 {
		if signed(x.kind) {
			return sym{dk, "((_ to_fp 11 53) RNE " + x.term + ")"}
		}
		return sym{dk, "((_ to_fp_unsigned 11 53) RNE " + x.term + ")"}
	}
	if x.kind == types.Float64 {
		if dk == types.Float32 {
			panic(engineLimit{"float32"})
		}
		if signed(dk) {
			return sym{dk, fmt.Sprintf("((_ fp.to_sbv %d) RTZ %s)", bits(dk), x.term)}
		}
		return sym{dk, fmt.Sprintf("((_ fp.to_ubv %d) RTZ %s)", bits(dk), x.term)}
	}
	if x.kind == types.Bool || dk == types.Bool {
		panic(engineLimit{"symConv bool"})
	}
	sb, db := bits(x.kind), bits(dk)
	switch {
	case sb == db:
		return sym{dk, x.term}
	case sb > db:
		return sym{dk, fmt.Sprintf("((_ extract %d 0) %s)", db-1, x.term)}
	case signed(x.kind):
		return sym{dk, fmt.Sprintf("((_ sign_extend %d) %s)", db-sb, x.term)}
	default:
		return sym{dk, fmt.Sprintf("((_ zero_extend %d) %s)", db-sb, x.term)}
	}
}

// ---- symbolic byte strings ----
// A string whose length is concrete and whose bytes may be symbolic.
type symstr struct{ b []value }

func strBytes(v value) ([]value, bool) {
	switch x := v.(type) {
	case string:
		out := make([]value, len(x))
		for i := 0; i < len(x); i++ {
			out[i] = x[i]
		}
		return out, true
	case *symstr:
		return x.b, true
	}
	return nil, false
}

// mkStr builds a string value from bytes: a Go string if all concrete.
func mkStr(b []value) value {
	conc := true
	for _, x := range b {
		if isSym(x) {
			conc = false
			break
		}
	}
	if conc {
		bs := make([]byte, len(b))
		for i := range b {
			bs[i] = b[i].(uint8)
		}
		return string(bs)
	}
	return &symstr{append([]value{}, b...)}
}

func bytesEqTerm(a, b []value) sym {
	if len(a) != len(b) {
		return sym{types.Bool, "false"}
	}
	var ts []string
	for i := range a {
		if !isSym(a[i]) && !isSym(b[i]) {
			if a[i].(uint8) != b[i].(uint8) {
				return sym{types.Bool, "false"}
			}
			continue
		}
		ta, tb := lift(a[i]).term, lift(b[i]).term
		if ta == tb {
			continue
		}
		ts = append(ts, "(= "+ta+" "+tb+")")
	}
	return symAnd(ts)
}

// bytesLtTerm: lexicographic a < b (orEq: a <= b).
func bytesLtTerm(a, b []value, orEq bool) sym {
	// build from the end
	n := len(a)
	if len(b) < n {
		n = len(b)
	}
	var tail string
	if len(a) < len(b) || (orEq && len(a) == len(b)) {
		tail = "true"
	} else {
		tail = "false"
	}
	for i := n - 1; i >= 0; i-- {
		x, y := lift(a[i]).term, lift(b[i]).term
		if !isSym(a[i]) && !isSym(b[i]) {
			ax, bx := a[i].(uint8), b[i].(uint8)
			if ax < bx {
				tail = "true"
			} else if ax > bx {
				tail = "false"
			}
			continue
		}
		tail = "(ite (bvult " + x + " " + y + ") true (ite (bvugt " + x + " " + y + ") false " + tail + "))"
	}
	return sym{types.Bool, tail}
}

func symStrBinop(op token.Token, x, y value) value {
	a, _ := strBytes(x)
	b, _ := strBytes(y)
	switch op {
	case token.ADD:
		return mkStr(append(append([]value{}, a...), b...))
	case token.EQL:
		return boolVal(bytesEqTerm(a, b))
	case token.NEQ:
		return boolVal(symNot(bytesEqTerm(a, b)))
	case token.LSS:
		return boolVal(bytesLtTerm(a, b, false))
	case token.LEQ:
		return boolVal(bytesLtTerm(a, b, true))
	case token.GTR:
		return boolVal(bytesLtTerm(b, a, false))
	case token.GEQ:
		return boolVal(bytesLtTerm(b, a, true))
	}
	panic(engineLimit{"symstr op " + op.String()})
}

// symEquals compares two values structurally where scalars may be symbolic;
// returns bool or sym.
func symEquals(t types.Type, x, y value) value {
	var ts []string
	ok := symEqRec(x, y, &ts)
	if !ok {
		return false
	}
	return boolVal(symAnd(ts))
}

func containsSym(v value) bool {
	switch x := v.(type) {
	case sym, *symstr:
		return true
	case structure:
		for _, e := range x {
			if containsSym(e) {
				return true
			}
		}
	case array:
		for _, e := range x {
			if containsSym(e) {
				return true
			}
		}
	case iface:
		return containsSym(x.v)
	}
	return false
}

func symEqRec(x, y value, ts *[]string) bool {
	if isSym(x) || isSym(y) {
		r := symBinop(token.EQL, x, y).(sym)
		*ts = append(*ts, r.term)
		return true
	}
	switch a := x.(type) {
	case *symstr, string:
		xb, _ := strBytes(x)
		yb, ok := strBytes(y)
		if !ok {
			return false
		}
		r := bytesEqTerm(xb, yb)
		if r.term == "false" {
			return false
		}
		*ts = append(*ts, r.term)
		return true
	case structure:
		b, ok := y.(structure)
		if !ok || len(a) != len(b) {
			return false
		}
		for i := range a {
			if !symEqRec(a[i], b[i], ts) {
				return false
			}
		}
		return true
	case array:
		b, ok := y.(array)
		if !ok || len(a) != len(b) {
			return false
		}
		for i := range a {
			if !symEqRec(a[i], b[i], ts) {
				return false
			}
		}
		return true
	case iface:
		b, ok := y.(iface)
		if !ok {
			return false
		}
		if a.t == nil || b.t == nil {
			return a.t == nil && b.t == nil
		}
		if !types.Identical(a.t, b.t) {
			return false
		}
		return symEqRec(a.v, b.v, ts)
	}
	return equals(nil, x, y)
}

// ---- deep structural equality producing a term (symDeepEq, reflect.DeepEqual) ----
func deepEqTerm(a, b value, ts *[]string, depth int) bool {
	if depth > 60 {
		panic(engineLimit{"deepEq depth"})
	}
	if isSym(a) || isSym(b) {
		sa, sb := lift(a), lift(b)
		if sa.kind == types.Float64 {
			// DeepEqual uses ==; bit-identity is stricter. Use SMT = (structural).
			*ts = append(*ts, "(= "+sa.term+" "+sb.term+")")
		} else {
			*ts = append(*ts, "(= "+sa.term+" "+sb.term+")")
		}
		return true
	}
	switch x := a.(type) {
	case *symstr, string:
		xb, _ := strBytes(a)
		yb, ok := strBytes(b)
		if !ok {
			return false
		}
		r := bytesEqTerm(xb, yb)
		if r.term == "false" {
			return false
		}
		*ts = append(*ts, r.term)
		return true
	case structure:
		y, ok := b.(structure)
		if !ok || len(x) != len(y) {
			return false
		}
		for i := range x {
			if !deepEqTerm(x[i], y[i], ts, depth+1) {
				return false
			}
		}
		return true
	case array:
		y, ok := b.(array)
		if !ok || len(x) != len(y) {
			return false
		}
		for i := range x {
			if !deepEqTerm(x[i], y[i], ts, depth+1) {
				return false
			}
		}
		return true
	case []value:
		y, ok := b.([]value)
		if !ok || len(x) != len(y) || (x == nil) != (y == nil) {
			return false
		}
		for i := range x {
			if !deepEqTerm(x[i], y[i], ts, depth+1) {
				return false
			}
		}
		return true
	case *value:
		y, ok := b.(*value)
		if !ok {
			return false
		}
		if x == nil || y == nil {
			return x == y
		}
		if x == y {
			return true
		}
		return deepEqTerm(*x, *y, ts, depth+1)
	case iface:
		y, ok := b.(iface)
		if !ok {
			return false
		}
		if x.t == nil || y.t == nil {
			return x.t == nil && y.t == nil
		}
		if !types.Identical(x.t, y.t) {
			return false
		}
		return deepEqTerm(x.v, y.v, ts, depth+1)
	case map[value]value:
		y, ok := b.(map[value]value)
		if !ok || len(x) != len(y) || (x == nil) != (y == nil) {
			return false
		}
		for k, e := range x {
			f, ok := y[k]
			if !ok || !deepEqTerm(e, f, ts, depth+1) {
				return false
			}
		}
		return true
	case *hashmap:
		y, ok := b.(*hashmap)
		if !ok || (x == nil) != (y == nil) {
			return false
		}
		if x == nil {
			return true
		}
		if x.len() != y.len() {
			return false
		}
		for _, e := range x.entries() {
			for ; e != nil; e = e.next {
				f := y.lookup(e.key)
				if f == nil || !deepEqTerm(e.value, f, ts, depth+1) {
					return false
				}
			}
		}
		return true
	case *ssa.Function, *closure:
		return false
	}
	return equals(nil, a, b)
}

func deepEqValue(a, b value) value {
	var ts []string
	if !deepEqTerm(a, b, &ts, 0) {
		return false
	}
	return boolVal(symAnd(ts))
}

// ---- intrinsics ----
// Harness intrinsics are functions named sym* declared in any package under
// github.com/jrhy/; they are dispatched by name.
var Intrinsics = map[string]func(fr *frame, a []value) value{}

func strArg(v value) string {
	s, ok := v.(string)
	if !ok {
		panic(engineLimit{"intrinsic name must be a concrete string"})
	}
	return s
}

func observeValue(name string, v value) obsItem {
	if x, ok := v.(iface); ok {
		v = x.v
	}
	switch x := v.(type) {
	case sym:
		sort := "Bool"
		term := x.term
		if x.kind == types.Float64 {
			sort = "(_ BitVec 64)"
			term = "(fp.to_ieee_bv_total " + x.term + ")"
			// z3 spells it fp.to_ieee_bv; handled at solver level through a define below
			term = "(fp.to_ieee_bv " + x.term + ")"
		} else if x.kind != types.Bool {
			sort = fmt.Sprintf("(_ BitVec %d)", bits(x.kind))
			if !signed(x.kind) && bits(x.kind) == 64 {
				sort = "(_ BitVec 64)"
			}
		}
		return obsItem{name: name, term: term, sort: sort}
	case *symstr:
		// observe as a list of byte terms is not supported; use bytes individually
		panic(engineLimit{"symObserve of symbolic string: observe bytes individually"})
	case bool, string:
		return obsItem{name: name, val: fmt.Sprint(x)}
	case int, int8, int16, int32, int64, uint, uint8, uint16, uint32:
		return obsItem{name: name, val: fmt.Sprint(x)}
	case uint64:
		return obsItem{name: name, val: fmt.Sprint(int64(x))}
	case float64:
		return obsItem{name: name, val: fmt.Sprint(int64(math.Float64bits(x)))}
	case nil:
		return obsItem{name: name, val: "<nil>"}
	}
	panic(engineLimit{fmt.Sprintf("symObserve of %T", v)})
}

func init() {
	I := Intrinsics
	mkInt := func(kind types.BasicKind) func(fr *frame, a []value) value {
		return func(fr *frame, a []value) value {
			n := "v_" + strArg(a[0])
			X.decl(n, fmt.Sprintf("(_ BitVec %d)", bits(kind)))
			return sym{kind, n}
		}
	}
	I["symInt64"] = mkInt(types.Int64)
	I["symInt"] = mkInt(types.Int)
	I["symUint8"] = mkInt(types.Uint8)
	I["symUint64"] = mkInt(types.Uint64)
	I["symInt32"] = mkInt(types.Int32)
	I["symBool"] = func(fr *frame, a []value) value {
		n := "v_" + strArg(a[0])
		X.decl(n, "Bool")
		return sym{types.Bool, n}
	}
	I["symFloat64"] = func(fr *frame, a []value) value {
		n := "v_" + strArg(a[0])
		X.decl(n, "(_ BitVec 64)")
		return sym{types.Float64, "((_ to_fp 11 53) " + n + ")"}
	}
	symBytes := func(a []value) []value {
		base := "v_" + strArg(a[0])
		n := a[1].(int)
		out := make([]value, n)
		for i := 0; i < n; i++ {
			nm := fmt.Sprintf("%s_%d", base, i)
			X.decl(nm, "(_ BitVec 8)")
			out[i] = sym{types.Uint8, nm}
		}
		return out
	}
	I["symBytes"] = func(fr *frame, a []value) value { return symBytes(a) }
	I["symString"] = func(fr *frame, a []value) value { return mkStr(symBytes(a)) }
	I["symChoice"] = func(fr *frame, a []value) value {
		n := a[1].(int)
		if ReplayOn {
			d := 0
			if len(X.choices) < len(ReplayChoices) {
				d = ReplayChoices[len(X.choices)]
			}
			X.choices = append(X.choices, d)
			return d
		}
		d := X.decide(n, func(int) string { return "" })
		X.choices = append(X.choices, d)
		return d
	}
	I["symAssume"] = func(fr *frame, a []value) value {
		if c, ok := a[0].(sym); ok {
			if c.term == "true" {
				return nil
			}
			if X.pos >= len(X.prefix) {
				r := X.S.checkT(c.term, X.FeasMS)
				if r == "unsat" {
					panic(pathAbort{"assume infeasible"})
				}
				X.S.send("(pop)")
			}
			X.assertPC(c.term)
		} else if !a[0].(bool) {
			panic(pathAbort{"assume false"})
		}
		return nil
	}
	I["symAssert"] = func(fr *frame, a []value) value {
		X.Assert(a[0], strArg(a[1]))
		return nil
	}
	I["symObserve"] = func(fr *frame, a []value) value {
		X.obs = append(X.obs, observeValue(strArg(a[0]), a[1]))
		return nil
	}
	I["symReach"] = func(fr *frame, a []value) value {
		X.St.Reach[strArg(a[0])]++
		return nil
	}
	I["symEvent"] = func(fr *frame, a []value) value {
		id := strArg(a[0])
		X.events = append(X.events, id)
		X.St.Events[id]++
		return nil
	}
	I["symDeepEq"] = func(fr *frame, a []value) value { return deepEqValue(a[0], a[1]) }
	I["symIsSymbolic"] = func(fr *frame, a []value) value { return true }
	I["symUF8"] = func(fr *frame, a []value) value {
		fn := "uf_" + strArg(a[0])
		X.declFun(fn, "((_ BitVec 64)) (_ BitVec 8)")
		res := "(" + fn + " " + lift(a[1]).term + ")"
		X.ufApps = append(X.ufApps, ufApp{strArg(a[0]), lift(a[1]).term, res})
		if ReplayOn {
			for k, v := range ReplayUF {
				var f string
				var arg int64
				if i := strings.Index(k, "("); i > 0 {
					f = k[:i]
					fmt.Sscanf(k[i+1:], "%d", &arg)
				}
				if f == strArg(a[0]) {
					X.S.send(fmt.Sprintf("(assert (= (%s (_ bv%d 64)) (_ bv%d 8)))", fn, uint64(arg), v))
				}
			}
		}
		return sym{types.Uint8, res}
	}
	// symConcretize(x, n): fork on x in 0..n-1
	I["symConcretize"] = func(fr *frame, a []value) value {
		if s, ok := a[0].(sym); ok {
			return convInt(s.kind, int64(X.concretize(s, a[1].(int))))
		}
		return a[0]
	}
	// symIte(c, a, b int64)
	I["symIte64"] = func(fr *frame, a []value) value {
		if c, ok := a[0].(sym); ok {
			return sym{types.Int64, "(ite " + c.term + " " + lift(a[1]).term + " " + lift(a[2]).term + ")"}
		}
		if a[0].(bool) {
			return a[1]
		}
		return a[2]
	}
	I["symAnd"] = func(fr *frame, a []value) value {
		var ts []string
		for _, x := range a[0].([]value) {
			if s, ok := x.(sym); ok {
				ts = append(ts, s.term)
			} else if !x.(bool) {
				return false
			}
		}
		return boolVal(symAnd(ts))
	}
	I["symOr"] = func(fr *frame, a []value) value {
		var ts []string
		for _, x := range a[0].([]value) {
			if s, ok := x.(sym); ok {
				ts = append(ts, s.term)
			} else if x.(bool) {
				return true
			}
		}
		if len(ts) == 0 {
			return false
		}
		if len(ts) == 1 {
			return sym{types.Bool, ts[0]}
		}
		return sym{types.Bool, "(or " + strings.Join(ts, " ") + ")"}
	}
}

// ---- summary-mode dump (paths -> define-fun material) ----
func (e *Explorer) writeSummaryPath() {
	fmt.Fprintf(e.summary, "PATH\n")
	for _, c := range e.pc {
		fmt.Fprintf(e.summary, "PC %s\n", c)
	}
	for _, o := range e.obs {
		if o.term != "" {
			fmt.Fprintf(e.summary, "OBS %s %s\n", o.name, o.term)
		} else {
			fmt.Fprintf(e.summary, "OBSC %s %s\n", o.name, o.val)
		}
	}
	names := append([]string{}, e.names...)
	sort.Strings(names)
	for _, n := range names {
		fmt.Fprintf(e.summary, "DECL %s %s\n", n, e.decls[n])
	}
}
