// Copyright 2013 The Go Authors. All rights reserved.
// Use of this source code is governed by a BSD-style
// license that can be found in the LICENSE file.

package myinterp

// Emulated functions that we cannot interpret because they are
// external or because they use "unsafe" or "reflect" operations.

import (
	"go/types"
	"bytes"
	"maps"
	"math"
	"os"
	"runtime"
	"slices"
	"sort"
	"strconv"
	"strings"
	"time"
	"unicode/utf8"
)

type externalFn func(fr *frame, args []value) value

// TODO(adonovan): fix: reflect.Value abstracts an lvalue or an
// rvalue; Set() causes mutations that can be observed via aliases.
// We have not captured that correctly here.

// Key strings are from Function.String().
var externals = make(map[string]externalFn)

func init() {
	// That little dot ۰ is an Arabic zero numeral (U+06F0), categories [Nd].
	maps.Copy(externals, map[string]externalFn{
		"(reflect.Value).Bool":            ext۰reflect۰Value۰Bool,
		"(reflect.Value).CanAddr":         ext۰reflect۰Value۰CanAddr,
		"(reflect.Value).CanInterface":    ext۰reflect۰Value۰CanInterface,
		"(reflect.Value).Elem":            ext۰reflect۰Value۰Elem,
		"(reflect.Value).Field":           ext۰reflect۰Value۰Field,
		"(reflect.Value).Float":           ext۰reflect۰Value۰Float,
		"(reflect.Value).Index":           ext۰reflect۰Value۰Index,
		"(reflect.Value).Int":             ext۰reflect۰Value۰Int,
		"(reflect.Value).Interface":       ext۰reflect۰Value۰Interface,
		"(reflect.Value).IsNil":           ext۰reflect۰Value۰IsNil,
		"(reflect.Value).IsValid":         ext۰reflect۰Value۰IsValid,
		"(reflect.Value).Kind":            ext۰reflect۰Value۰Kind,
		"(reflect.Value).Len":             ext۰reflect۰Value۰Len,
		"(reflect.Value).MapIndex":        ext۰reflect۰Value۰MapIndex,
		"(reflect.Value).MapKeys":         ext۰reflect۰Value۰MapKeys,
		"(reflect.Value).NumField":        ext۰reflect۰Value۰NumField,
		"(reflect.Value).NumMethod":       ext۰reflect۰Value۰NumMethod,
		"(reflect.Value).Pointer":         ext۰reflect۰Value۰Pointer,
		"(reflect.Value).Set":             ext۰reflect۰Value۰Set,
		"(reflect.Value).String":          ext۰reflect۰Value۰String,
		"(reflect.Value).Type":            ext۰reflect۰Value۰Type,
		"(reflect.Value).Uint":            ext۰reflect۰Value۰Uint,
		"(reflect.error).Error":           ext۰reflect۰error۰Error,
		"(reflect.rtype).Bits":            ext۰reflect۰rtype۰Bits,
		"(reflect.rtype).Elem":            ext۰reflect۰rtype۰Elem,
		"(reflect.rtype).Field":           ext۰reflect۰rtype۰Field,
		"(reflect.rtype).In":              ext۰reflect۰rtype۰In,
		"(reflect.rtype).Kind":            ext۰reflect۰rtype۰Kind,
		"(reflect.rtype).NumField":        ext۰reflect۰rtype۰NumField,
		"(reflect.rtype).NumIn":           ext۰reflect۰rtype۰NumIn,
		"(reflect.rtype).NumMethod":       ext۰reflect۰rtype۰NumMethod,
		"(reflect.rtype).NumOut":          ext۰reflect۰rtype۰NumOut,
		"(reflect.rtype).Out":             ext۰reflect۰rtype۰Out,
		"(reflect.rtype).Size":            ext۰reflect۰rtype۰Size,
		"(reflect.rtype).String":          ext۰reflect۰rtype۰String,
		"bytes.Equal":                     ext۰bytes۰Equal,
		"bytes.IndexByte":                 ext۰bytes۰IndexByte,
		"fmt.Sprint":                      ext۰fmt۰Sprint,
		"math.Abs":                        ext۰math۰Abs,
		"math.Copysign":                   ext۰math۰Copysign,
		"math.Exp":                        ext۰math۰Exp,
		"math.Float32bits":                ext۰math۰Float32bits,
		"math.Float32frombits":            ext۰math۰Float32frombits,
		"math.Float64bits":                ext۰math۰Float64bits,
		"math.Float64frombits":            ext۰math۰Float64frombits,
		"math.Inf":                        ext۰math۰Inf,
		"math.IsNaN":                      ext۰math۰IsNaN,
		"math.Ldexp":                      ext۰math۰Ldexp,
		"math.Log":                        ext۰math۰Log,
		"math.Min":                        ext۰math۰Min,
		"math.NaN":                        ext۰math۰NaN,
		"math.Sqrt":                       ext۰math۰Sqrt,
		"os.Exit":                         ext۰os۰Exit,
		"os.Getenv":                       ext۰os۰Getenv,
		"reflect.New":                     ext۰reflect۰New,
		"reflect.SliceOf":                 ext۰reflect۰SliceOf,
		"reflect.TypeOf":                  ext۰reflect۰TypeOf,
		"reflect.ValueOf":                 ext۰reflect۰ValueOf,
		"reflect.Zero":                    ext۰reflect۰Zero,
		"runtime.Breakpoint":              ext۰runtime۰Breakpoint,
		"runtime.GC":                      ext۰runtime۰GC,
		"runtime.GOMAXPROCS":              ext۰runtime۰GOMAXPROCS,
		"runtime.GOROOT":                  ext۰runtime۰GOROOT,
		"runtime.Goexit":                  ext۰runtime۰Goexit,
		"runtime.Gosched":                 ext۰runtime۰Gosched,
		"runtime.NumCPU":                  ext۰runtime۰NumCPU,
		"sort.Float64s":                   ext۰sort۰Float64s,
		"sort.Ints":                       ext۰sort۰Ints,
		"sort.Strings":                    ext۰sort۰Strings,
		"strconv.Atoi":                    ext۰strconv۰Atoi,
		"strconv.Itoa":                    ext۰strconv۰Itoa,
		"strconv.FormatFloat":             ext۰strconv۰FormatFloat,
		"strings.Count":                   ext۰strings۰Count,
		"strings.EqualFold":               ext۰strings۰EqualFold,
		"strings.Index":                   ext۰strings۰Index,
		"strings.IndexByte":               ext۰strings۰IndexByte,
		"strings.Replace":                 ext۰strings۰Replace,
		"strings.ToLower":                 ext۰strings۰ToLower,
		"time.Sleep":                      ext۰time۰Sleep,
	})
}

func ext۰bytes۰Equal(fr *frame, args []value) value {
	// func Equal(a, b []byte) bool
	a := args[0].([]value)
	b := args[1].([]value)
	return slices.Equal(a, b)
}

func ext۰bytes۰IndexByte(fr *frame, args []value) value {
	// func IndexByte(s []byte, c byte) int
	s := args[0].([]value)
	for i, b := range s {
		if !isSym(b) && !isSym(args[1]) {
			if b.(byte) == args[1].(byte) {
				return i
			}
			continue
		}
		// a symbolic byte: one branch per position, in order
		if X.branch(sym{types.Bool, "(= " + lift(b).term + " " + lift(args[1]).term + ")"}) {
			return i
		}
	}
	return -1
}

func ext۰math۰Float64frombits(fr *frame, args []value) value {
	return math.Float64frombits(args[0].(uint64))
}

func ext۰math۰Float64bits(fr *frame, args []value) value {
	return math.Float64bits(args[0].(float64))
}

func ext۰math۰Float32frombits(fr *frame, args []value) value {
	return math.Float32frombits(args[0].(uint32))
}

func ext۰math۰Abs(fr *frame, args []value) value {
	return math.Abs(args[0].(float64))
}

func ext۰math۰Copysign(fr *frame, args []value) value {
	return math.Copysign(args[0].(float64), args[1].(float64))
}

func ext۰math۰Exp(fr *frame, args []value) value {
	return math.Exp(args[0].(float64))
}

func ext۰math۰Float32bits(fr *frame, args []value) value {
	return math.Float32bits(args[0].(float32))
}

func ext۰math۰Min(fr *frame, args []value) value {
	return math.Min(args[0].(float64), args[1].(float64))
}

func ext۰math۰NaN(fr *frame, args []value) value {
	return math.NaN()
}

func ext۰math۰IsNaN(fr *frame, args []value) value {
	return math.IsNaN(args[0].(float64))
}

func ext۰math۰Inf(fr *frame, args []value) value {
	return math.Inf(args[0].(int))
}

func ext۰math۰Ldexp(fr *frame, args []value) value {
	return math.Ldexp(args[0].(float64), args[1].(int))
}

func ext۰math۰Log(fr *frame, args []value) value {
	return math.Log(args[0].(float64))
}

func ext۰math۰Sqrt(fr *frame, args []value) value {
	return math.Sqrt(args[0].(float64))
}

func ext۰runtime۰Breakpoint(fr *frame, args []value) value {
	runtime.Breakpoint()
	return nil
}

func ext۰sort۰Ints(fr *frame, args []value) value {
	x := args[0].([]value)
	sort.Slice(x, func(i, j int) bool {
		return x[i].(int) < x[j].(int)
	})
	return nil
}
func ext۰sort۰Strings(fr *frame, args []value) value {
	x := args[0].([]value)
	sort.Slice(x, func(i, j int) bool {
		return x[i].(string) < x[j].(string)
	})
	return nil
}
func ext۰sort۰Float64s(fr *frame, args []value) value {
	x := args[0].([]value)
	sort.Slice(x, func(i, j int) bool {
		return x[i].(float64) < x[j].(float64)
	})
	return nil
}

func ext۰strconv۰Atoi(fr *frame, args []value) value {
	i, e := strconv.Atoi(args[0].(string))
	if e != nil {
		if fr.i.runtimeErrorString != nil {
			return tuple{i, iface{fr.i.runtimeErrorString, e.Error()}}
		}
		return tuple{i, e.Error()}
	}
	return tuple{i, iface{}}
}
func ext۰strconv۰Itoa(fr *frame, args []value) value {
	return strconv.Itoa(args[0].(int))
}
func ext۰strconv۰FormatFloat(fr *frame, args []value) value {
	return strconv.FormatFloat(args[0].(float64), args[1].(byte), args[2].(int), args[3].(int))
}

func ext۰strings۰Count(fr *frame, args []value) value {
	return strings.Count(args[0].(string), args[1].(string))
}

func ext۰strings۰EqualFold(fr *frame, args []value) value {
	return strings.EqualFold(args[0].(string), args[1].(string))
}
func ext۰strings۰IndexByte(fr *frame, args []value) value {
	return strings.IndexByte(args[0].(string), args[1].(byte))
}

func ext۰strings۰Index(fr *frame, args []value) value {
	return strings.Index(args[0].(string), args[1].(string))
}

func ext۰strings۰Replace(fr *frame, args []value) value {
	// func Replace(s, old, new string, n int) string
	s := args[0].(string)
	new := args[1].(string)
	old := args[2].(string)
	n := args[3].(int)
	return strings.Replace(s, old, new, n)
}

func ext۰strings۰ToLower(fr *frame, args []value) value {
	return strings.ToLower(args[0].(string))
}

func ext۰runtime۰GOMAXPROCS(fr *frame, args []value) value {
	// Ignore args[0]; don't let the interpreted program
	// set the interpreter's GOMAXPROCS!
	return runtime.GOMAXPROCS(0)
}

func ext۰runtime۰Goexit(fr *frame, args []value) value {
	// TODO(adonovan): don't kill the interpreter's main goroutine.
	runtime.Goexit()
	return nil
}

func ext۰runtime۰GOROOT(fr *frame, args []value) value {
	return runtime.GOROOT()
}

func ext۰runtime۰GC(fr *frame, args []value) value {
	runtime.GC()
	return nil
}

func ext۰runtime۰Gosched(fr *frame, args []value) value {
	runtime.Gosched()
	return nil
}

func ext۰runtime۰NumCPU(fr *frame, args []value) value {
	return runtime.NumCPU()
}

func ext۰time۰Sleep(fr *frame, args []value) value {
	time.Sleep(time.Duration(args[0].(int64)))
	return nil
}

func ext۰os۰Getenv(fr *frame, args []value) value {
	name := args[0].(string)
	switch name {
	case "GOSSAINTERP":
		return "1"
	}
	return os.Getenv(name)
}

func ext۰os۰Exit(fr *frame, args []value) value {
	panic(exitPanic(args[0].(int)))
}

func ext۰unicode۰utf8۰DecodeRuneInString(fr *frame, args []value) value {
	r, n := utf8.DecodeRuneInString(args[0].(string))
	return tuple{r, n}
}

// A fake function for turning an arbitrary value into a string.
// Handles only the cases needed by the tests.
// Uses same logic as 'print' built-in.
func ext۰fmt۰Sprint(fr *frame, args []value) value {
	buf := new(bytes.Buffer)
	wasStr := false
	for i, arg := range args[0].([]value) {
		x := arg.(iface).v
		_, isStr := x.(string)
		if i > 0 && !wasStr && !isStr {
			buf.WriteByte(' ')
		}
		wasStr = isStr
		buf.WriteString(toString(x))
	}
	return buf.String()
}
