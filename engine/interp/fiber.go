package myinterp

import "golang.org/x/tools/go/ssa"

// ---- deterministic cooperative fibers (spike) ----
// Exactly one fiber runs at a time (baton). Blocking operations spin with yield().
// Scheduling is FIFO round-robin => deterministic. Marked yield points (symYield)
// may make the choice of the next fiber *group* a decision.

type fiber struct {
	id   int
	grp  *fgroup
	run  chan struct{}
	dead bool
}

type fgroup struct {
	id     int
	parked *fiber // fiber suspended at a marked yield point (or not yet started)
	live   int
	waitMu *value // suspended until this mutex (held by another group) is free
}

type sched struct {
	fibers   []*fiber
	groups   []*fgroup
	cur      *fiber
	progress int
	stalled  int
	killed   bool
	pending  any

	preemptions int
}

var SC *sched

func schedReset() {
	g0 := &fgroup{id: 0, live: 1}
	main := &fiber{id: 0, grp: g0, run: make(chan struct{}, 1)}
	SC = &sched{fibers: []*fiber{main}, groups: []*fgroup{g0}, cur: main}
}

type fiberKill struct{}

func (s *sched) switchTo(me, nx *fiber) {
	if nx == me {
		return
	}
	s.cur = nx
	nx.run <- struct{}{}
	<-me.run
	if s.killed && me.id != 0 {
		panic(fiberKill{})
	}
}

// next live fiber of the same group after cur (ring order); may be cur itself
func (s *sched) nextInGroup(cur *fiber) *fiber {
	n := len(s.fibers)
	for k := 1; k <= n; k++ {
		f := s.fibers[(cur.id+k)%n]
		if !f.dead && f.grp == cur.grp {
			return f
		}
	}
	return nil
}

// yield because the current fiber cannot make progress: only group mates may run.
func (s *sched) yieldBlocked() {
	me := s.cur
	s.stalled++
	if s.stalled > 2*me.grp.live+2 {
		panic(pathAbort{"DEADLOCK: all fibers of the group are blocked"})
	}
	s.switchTo(me, s.nextInGroup(me))
}

func (s *sched) progressed() { s.progress++; s.stalled = 0 }

func (s *sched) newFiber(g *fgroup, body func()) *fiber {
	f := &fiber{id: len(s.fibers), grp: g, run: make(chan struct{}, 1)}
	s.fibers = append(s.fibers, f)
	g.live++
	s.progressed()
	go func() {
		<-f.run
		defer func() {
			r := recover()
			f.dead = true
			g.live--
			if _, ok := r.(fiberKill); !ok && r != nil && s.pending == nil {
				s.pending = r
			}
			s.progressed()
			if s.killed {
				s.fibers[0].run <- struct{}{}
				return
			}
			if g.live > 0 {
				nx := s.nextInGroup(f)
				s.cur = nx
				nx.run <- struct{}{}
				return
			}
			// group finished: pick another suspended group, else main
			nx := s.pickGroup(nil)
			s.cur = nx
			nx.run <- struct{}{}
		}()
		if s.killed {
			return
		}
		body()
	}()
	return f
}

// candidates: suspended groups (parked != nil) with live fibers; decision among them.
// Returns the fiber to resume (main if no candidate).
func (s *sched) pickGroup(include *fgroup) *fiber {
	var cands []*fgroup
	for _, g := range s.groups {
		if g.id != 0 && g.live > 0 && (g.parked != nil || g == include) {
			if g.waitMu != nil && mtxHeld[g.waitMu] != nil {
				continue // still blocked on a mutex another group holds
			}
			cands = append(cands, g)
		}
	}
	if len(cands) == 0 {
		return s.fibers[0]
	}
	d := 0
	if len(cands) > 1 {
		// preemption bounding: once the budget of preemptive switches (leaving a
		// group that could continue) is used up, the running group continues
		bound, bounded := Params["preempt"]
		if include != nil && bounded && s.preemptions >= bound {
			for i, c := range cands {
				if c == include {
					d = i
				}
			}
		} else {
			d = X.decide(len(cands), func(int) string { return "" })
			X.sched = append(X.sched, cands[d].id)
			if include != nil && cands[d] != include {
				s.preemptions++
			}
		}
	}
	g := cands[d]
	// the complete schedule (who runs after every scheduling point, forced or
	// chosen) is what the native replay follows
	X.schedFull = append(X.schedFull, g.id)
	if g == include {
		return nil // continue current
	}
	f := g.parked
	g.parked = nil
	return f
}

// killAll is called by the main fiber at the end of a path.
func (s *sched) killAll() {
	s.killed = true
	me := s.fibers[0]
	for _, f := range s.fibers {
		if !f.dead && f != me {
			s.cur = f
			f.run <- struct{}{}
			<-me.run
		}
	}
	s.cur = me
}

// ---- channels ----
type sendItem struct {
	v    value
	done bool
}
type schan struct {
	buf    []value
	cap    int
	closed bool
	sendq  []*sendItem
}

func chSend(c *schan, v value) {
	if c == nil {
		for {
			SC.yieldBlocked()
		}
	}
	if c.closed {
		panic(targetPanic{iface{nil, "send on closed channel"}})
	}
	if len(c.buf) < c.cap {
		c.buf = append(c.buf, v)
		SC.progressed()
		return
	}
	it := &sendItem{v: v}
	c.sendq = append(c.sendq, it)
	for !it.done {
		SC.yieldBlocked()
	}
}

func chRecv(c *schan) (value, bool) {
	for {
		if c != nil {
			if len(c.buf) > 0 {
				v := c.buf[0]
				c.buf = c.buf[1:]
				if len(c.sendq) > 0 {
					it := c.sendq[0]
					c.sendq = c.sendq[1:]
					c.buf = append(c.buf, it.v)
					it.done = true
				}
				SC.progressed()
				return v, true
			}
			if len(c.sendq) > 0 {
				it := c.sendq[0]
				c.sendq = c.sendq[1:]
				it.done = true
				SC.progressed()
				return it.v, true
			}
			if c.closed {
				return nil, false
			}
		}
		SC.yieldBlocked()
	}
}

// ---- sync models ----
func init() {
	H := Hooks
	H["(*sync.WaitGroup).Add"] = func(fr *frame, a []value) value {
		wgCount[a[0].(*value)] += a[1].(int)
		SC.progressed()
		return nil
	}
	H["(*sync.WaitGroup).Done"] = func(fr *frame, a []value) value {
		wgCount[a[0].(*value)]--
		SC.progressed()
		return nil
	}
	H["(*sync.WaitGroup).Wait"] = func(fr *frame, a []value) value {
		for wgCount[a[0].(*value)] > 0 {
			SC.yieldBlocked()
		}
		return nil
	}
	lock := func(fr *frame, a []value) value {
		p := a[0].(*value)
		if LockHook != nil {
			LockHook(fr, p, true)
		}
		for mtxHeld[p] != nil {
			if h := mtxHeld[p]; h.grp != SC.cur.grp && SC.cur.grp.id != 0 {
				SC.blockGroupOn(p)
				continue
			}
			SC.yieldBlocked()
		}
		mtxHeld[p] = SC.cur
		SC.progressed()
		return nil
	}
	unlock := func(fr *frame, a []value) value {
		p := a[0].(*value)
		if mtxHeld[p] == nil {
			panic(targetPanic{iface{nil, "unlock of unlocked mutex"}})
		}
		delete(mtxHeld, p)
		SC.progressed()
		if LockHook != nil {
			LockHook(fr, p, false)
		}
		return nil
	}
	H["(*sync.Mutex).Lock"] = lock
	H["(*sync.Mutex).Unlock"] = unlock
	H["(*sync.RWMutex).Lock"] = lock
	H["(*sync.RWMutex).Unlock"] = unlock
	H["(*sync.RWMutex).RLock"] = lock
	H["(*sync.RWMutex).RUnlock"] = unlock
	H["(*sync.Once).Do"] = func(fr *frame, a []value) value {
		p := a[0].(*value)
		if !onceDone[p] {
			onceDone[p] = true
			call(fr.i, fr, 0, a[1], nil)
		}
		return nil
	}
	I := Intrinsics
	// symSpawn(f): start a new client group running f; it stays parked until
	// symJoin or a marked yield schedules it.
	I["symSpawn"] = func(fr *frame, a []value) value {
		fn := a[len(a)-1]
		i := fr.i
		g := &fgroup{id: len(SC.groups)}
		SC.groups = append(SC.groups, g)
		g.parked = SC.newFiber(g, func() { call(i, nil, 0, fn, nil) })
		return nil
	}
	// symYield(): marked scheduling point; the next group to run is a decision.
	yieldFn = func(fr *frame, a []value) value {
		me := SC.cur
		if me.grp.id == 0 {
			return nil
		}
		nx := SC.pickGroup(me.grp)
		if nx == nil {
			return nil
		}
		me.grp.parked = me
		SC.progressed()
		SC.switchTo(me, nx)
		return nil
	}
	I["symYield"] = yieldFn
	I["symYieldAs"] = yieldFn
	I["symJoin"] = func(fr *frame, a []value) value {
		me := SC.cur
		nx := SC.pickGroup(nil)
		if nx != me {
			SC.switchTo(me, nx)
		}
		if SC.pending != nil {
			r := SC.pending
			SC.pending = nil
			panic(r)
		}
		return nil
	}
	// symGroup(): id of the running client group (0 = main)
	I["symGroup"] = func(fr *frame, a []value) value { return SC.cur.grp.id }
}

// LockHook, when set, observes Lock/Unlock (C19 lock discipline).
var LockHook func(fr *frame, m *value, acquire bool)

// ---- lock-discipline monitor (C19) ----
// GuardedGlobals maps a package-level variable to the mutex variable that must
// be held while it is accessed.  Accesses by spawned clients are checked and,
// like Lock/Unlock, are marked scheduling points.
var GuardedGlobals map[string]string
var raceCount int
var raceLog []string

func guardedAccess(fr *frame, g *ssa.Global, muName string) {
	if SC == nil || SC.cur == nil || SC.cur.grp.id == 0 {
		return // the main fiber (package init, harness set-up) is single-threaded
	}
	var mu *ssa.Global
	for gg := range fr.i.globals {
		if gg.String() == muName {
			mu = gg
		}
	}
	held := false
	if mu != nil {
		// the mutex is the global cell itself (sync.Mutex value): Lock receives its address
		if f := mtxHeld[fr.i.globals[mu]]; f != nil && f.grp == SC.cur.grp {
			held = true
		}
	}
	if !held {
		raceCount++
		raceLog = append(raceLog, g.String())
		X.events = append(X.events, "unguarded-access:"+g.Name())
	}
	if yieldFn != nil && Params["schedglobals"] == 1 {
		yieldFn(fr, nil)
	}
}

var yieldFn func(fr *frame, a []value) value

func init() {
	pathResets = append(pathResets, func() { raceCount = 0; raceLog = nil })
	Intrinsics["symGuard"] = func(fr *frame, a []value) value {
		if GuardedGlobals == nil {
			GuardedGlobals = map[string]string{}
		}
		GuardedGlobals[strArg(a[0])] = strArg(a[1])
		return nil
	}
	Intrinsics["symUnguardedAccesses"] = func(fr *frame, a []value) value { return raceCount }
	Intrinsics["symLocksHeld"] = func(fr *frame, a []value) value { return len(mtxHeld) }
	LockHook = func(fr *frame, m *value, acquire bool) {
		if Params["schedlocks"] == 1 && SC.cur.grp.id != 0 && yieldFn != nil {
			yieldFn(fr, nil)
		}
	}
}

// blockGroupOn suspends the running client group until mutex p, held by a
// fiber of another group, is released: another runnable group continues.  If
// no group can run the clients are deadlocked.
func (s *sched) blockGroupOn(p *value) {
	me := s.cur
	g := me.grp
	g.parked = me
	g.waitMu = p
	nx := s.pickGroup(nil)
	if nx == s.fibers[0] {
		// nobody else can run: if main is waiting in symJoin this is a deadlock
		g.parked = nil
		g.waitMu = nil
		panic(pathAbort{"DEADLOCK: every client is blocked on a mutex"})
	}
	s.progressed()
	s.switchTo(me, nx)
	g.waitMu = nil
}
