package myinterp

// Model of the cgo-facing SQLite API of go.riyazali.net/sqlite (DESIGN §4.5):
// sqlite.Value reads a harness-provided value; Context.Result* record what
// the callback handed back.  The real methods are cgo one-liners.

import (
	"fmt"
	"go/types"

	"golang.org/x/tools/go/ssa"
)

const sq = "go.riyazali.net/sqlite"

type sqlVal struct {
	kind     int // 1 int, 2 float, 3 text, 4 blob, 5 null
	i        value
	f        value
	s        value
	b        value
	nochange bool
}

type sqlResult struct {
	kind int // 0 none, 1 int, 2 float, 3 text, 4 blob, 5 null, 6 error
	v    value
}

type sqlCtx struct {
	results  []sqlResult
	data     value
	nochange bool // sqlite3_vtab_nochange(): the column is fetched for an UPDATE that does not change it
	asked    bool // the callback consulted NoChange()
}

func mkSQLValue(v *sqlVal) value {
	var cell value = v
	return structure{&cell}
}

func sqlValOf(v value) *sqlVal {
	p := v.(structure)[0].(*value)
	if p == nil {
		return nil
	}
	return (*p).(*sqlVal)
}

func sqlCtxOfContext(v value) *sqlCtx {
	// v is a Context struct value {ptr}
	p := v.(structure)[0].(*value)
	return (*p).(*sqlCtx)
}

func init() {
	I := Intrinsics
	H := Hooks
	I["symSQLInt"] = func(fr *frame, a []value) value { return mkSQLValue(&sqlVal{kind: 1, i: a[0]}) }
	I["symSQLFloat"] = func(fr *frame, a []value) value { return mkSQLValue(&sqlVal{kind: 2, f: a[0]}) }
	I["symSQLText"] = func(fr *frame, a []value) value { return mkSQLValue(&sqlVal{kind: 3, s: a[0]}) }
	I["symSQLBlob"] = func(fr *frame, a []value) value { return mkSQLValue(&sqlVal{kind: 4, b: a[0]}) }
	I["symSQLNull"] = func(fr *frame, a []value) value { return mkSQLValue(&sqlVal{kind: 5}) }
	I["symSQLNoChange"] = func(fr *frame, a []value) value { return mkSQLValue(&sqlVal{kind: 5, nochange: true}) }
	H["("+sq+".Value).IsNil"] = func(fr *frame, a []value) value { return sqlValOf(a[0]) == nil }
	H["("+sq+".Value).NoChange"] = func(fr *frame, a []value) value { return sqlValOf(a[0]).nochange }
	H["("+sq+".Value).Type"] = func(fr *frame, a []value) value { return sqlValOf(a[0]).kind }
	H["("+sq+".Value).Int64"] = func(fr *frame, a []value) value {
		v := sqlValOf(a[0])
		if v.kind == 1 {
			return v.i
		}
		return int64(0)
	}
	// sqlite3_value_int: the low 32 bits, sign-extended
	H["("+sq+".Value).Int"] = func(fr *frame, a []value) value {
		v := sqlValOf(a[0])
		if v.kind != 1 {
			return int(0)
		}
		if s, ok := v.i.(sym); ok {
			return symConv(types.Typ[types.Int], symConv(types.Typ[types.Int32], s).(sym))
		}
		return int(int32(v.i.(int64)))
	}
	H["("+sq+".Value).Float"] = func(fr *frame, a []value) value {
		v := sqlValOf(a[0])
		if v.kind == 2 {
			return v.f
		}
		return float64(0)
	}
	H["("+sq+".Value).Text"] = func(fr *frame, a []value) value {
		v := sqlValOf(a[0])
		switch v.kind {
		case 3:
			return v.s
		case 4:
			return mkStr(v.b.([]value))
		case 5:
			return ""
		}
		return "<number>"
	}
	H["("+sq+".Value).Blob"] = func(fr *frame, a []value) value {
		v := sqlValOf(a[0])
		switch v.kind {
		case 4:
			// sqlite3_value_blob of a zero-length blob is NULL: C.GoBytes gives an empty (nil-like) slice
			b := v.b.([]value)
			if len(b) == 0 {
				return []value(nil)
			}
			return append([]value{}, b...)
		case 3:
			bs, _ := strBytes(v.s)
			return append([]value{}, bs...)
		}
		return []value(nil)
	}
	// contexts
	newCtx := func(fr *frame) (*value, *sqlCtx) {
		c := &sqlCtx{}
		var inner value = c
		var ctxStruct value = structure{&inner} // Context{ptr}
		return &ctxStruct, c
	}
	I["symSQLContext"] = func(fr *frame, a []value) value {
		cp, _ := newCtx(fr)
		var vt value = structure{cp} // VirtualTableContext{*Context}
		return &vt
	}
	// symSQLContextNoChange(): like symSQLContext, but sqlite3_vtab_nochange() answers true
	I["symSQLContextNoChange"] = func(fr *frame, a []value) value {
		cp, c := newCtx(fr)
		c.nochange = true
		var vt value = structure{cp}
		return &vt
	}
	H["(*"+sq+".VirtualTableContext).NoChange"] = func(fr *frame, a []value) value {
		outer := (*a[0].(*value)).(structure)
		c := sqlCtxOfContext(*outer[0].(*value))
		c.asked = true
		return c.nochange
	}
	I["symSQLAggContext"] = func(fr *frame, a []value) value {
		cp, _ := newCtx(fr)
		var agg value = structure{cp, nil} // AggregateContext{*Context, id}
		return &agg
	}
	ctxOfPtr := func(v value) *sqlCtx {
		// v: *VirtualTableContext or *AggregateContext
		outer := (*v.(*value)).(structure)
		cp := outer[0].(*value)
		return sqlCtxOfContext(*cp)
	}
	// symSQLResult(ctx) (kind int, payload any, n int): last result and number of results
	res := func(fr *frame, a []value) value {
		c := ctxOfPtr(a[0])
		if len(c.results) == 0 {
			return tuple{0, iface{}, 0}
		}
		r := c.results[len(c.results)-1]
		var pv value = iface{}
		switch r.kind {
		case 1:
			pv = iface{types.Typ[types.Int64], r.v}
		case 2:
			pv = iface{types.Typ[types.Float64], r.v}
		case 3:
			pv = iface{types.Typ[types.String], r.v}
		case 4:
			pv = iface{types.NewSlice(types.Typ[types.Uint8]), r.v}
		case 6:
			pv = r.v
		}
		return tuple{r.kind, pv, len(c.results)}
	}
	I["symSQLResult"] = res
	I["symSQLAggResult"] = res
	rec := func(kind int, conv func(a []value) value) func(fr *frame, a []value) value {
		return func(fr *frame, a []value) value {
			c := sqlCtxOfContext(a[0])
			var v value
			if conv != nil {
				v = conv(a)
			}
			c.results = append(c.results, sqlResult{kind, v})
			return nil
		}
	}
	// riyazali: sqlite3_result_int(ctx, C.int(v)) -- a 32-bit C int
	H["("+sq+".Context).ResultInt"] = rec(1, func(a []value) value {
		if s, ok := a[1].(sym); ok {
			return symConv(types.Typ[types.Int64], symConv(types.Typ[types.Int32], s).(sym))
		}
		return int64(int32(a[1].(int)))
	})
	H["("+sq+".Context).ResultInt64"] = rec(1, func(a []value) value { return a[1] })
	H["("+sq+".Context).ResultFloat"] = rec(2, func(a []value) value { return a[1] })
	H["("+sq+".Context).ResultNull"] = rec(5, nil)
	H["("+sq+".Context).ResultBlob"] = rec(4, func(a []value) value { return a[1] })
	// riyazali passes a NULL pointer for the empty string, which SQLite turns into NULL
	H["("+sq+".Context).ResultText"] = func(fr *frame, a []value) value {
		c := sqlCtxOfContext(a[0])
		if bs, ok := strBytes(a[1]); ok && len(bs) == 0 {
			c.results = append(c.results, sqlResult{5, nil})
			return nil
		}
		c.results = append(c.results, sqlResult{3, a[1]})
		return nil
	}
	H["("+sq+".Context).ResultError"] = rec(6, func(a []value) value { return a[1] })
	H["(*"+sq+".AggregateContext).Data"] = func(fr *frame, a []value) value {
		c := ctxOfPtr(a[0])
		if c.data == nil {
			return iface{}
		}
		return c.data
	}
	H["(*"+sq+".AggregateContext).SetData"] = func(fr *frame, a []value) value {
		ctxOfPtr(a[0]).data = a[1]
		return nil
	}
	H[sq+".Register"] = func(fr *frame, a []value) value {
		registeredExt = a[0]
		return nil
	}
	// symSQLRegistered(): the closure handed to sqlite.Register by the package init
	I["symSQLRegistered"] = func(fr *frame, a []value) value {
		if registeredExt == nil {
			panic(engineLimit{"sqlite.Register was not called"})
		}
		switch f := registeredExt.(type) {
		case *closure:
			return iface{f.Fn.Signature, f}
		case *ssa.Function:
			return iface{f.Signature, f}
		}
		return registeredExt
	}
	H["(*"+sq+".ExtensionApi).CreateModule"] = func(fr *frame, a []value) value {
		extModules = append(extModules, extMod{a[1].(string), a[2]})
		return iface{}
	}
	H["(*"+sq+".ExtensionApi).CreateFunction"] = func(fr *frame, a []value) value {
		extModules = append(extModules, extMod{a[1].(string), a[2]})
		return iface{}
	}
	H[sq+".ReadOnly"] = func(fr *frame, a []value) value { return (*value)(nil) }
	H[sq+".Transaction"] = func(fr *frame, a []value) value { return (*value)(nil) }
	H[sq+".TwoPhaseCommit"] = func(fr *frame, a []value) value { return (*value)(nil) }
	H[sq+".EponymousOnly"] = func(fr *frame, a []value) value { return (*value)(nil) }
	// symSQLModule(name) any: the module/function object registered under name by the last run of the registration closure
	I["symSQLModule"] = func(fr *frame, a []value) value {
		n := strArg(a[0])
		for i := len(extModules) - 1; i >= 0; i-- {
			if extModules[i].name == n {
				return extModules[i].obj
			}
		}
		return iface{}
	}
	pathResets = append(pathResets, func() { extModules = nil })
	_ = fmt.Sprint
}

type extMod struct {
	name string
	obj  value
}

var registeredExt value
var extModules []extMod

// ---- object-store client of the AWS SDK (DESIGN §4.3) ----
// OpenKV's client is the concrete *s3.S3.  The four request methods dispatch
// to the harness's stub store (registered with symS3Register); session and
// client construction return an inert value.
var s3Stub value // iface holding the harness stub (implements kv.S3Interface)

func fakeS3(fr *frame, endpoint string) value {
	s3pkg := fr.i.prog.ImportedPackage("github.com/aws/aws-sdk-go/service/s3")
	clpkg := fr.i.prog.ImportedPackage("github.com/aws/aws-sdk-go/aws/client")
	s3T := s3pkg.Type("S3").Object().Type()
	clT := clpkg.Type("Client").Object().Type()
	cl := zero(clT).(structure)
	ci := fieldIndex(clT, "ClientInfo")
	ciT := clT.Underlying().(*types.Struct).Field(ci).Type()
	info := cl[ci].(structure)
	info[fieldIndex(ciT, "Endpoint")] = endpoint
	var clv value = cl
	s := zero(s3T).(structure)
	s[fieldIndex(s3T, "Client")] = &clv
	var sv value = s
	return &sv
}

func init() {
	I := Intrinsics
	H := Hooks
	I["symS3Register"] = func(fr *frame, a []value) value {
		s3Stub = a[0]
		return nil
	}
	pathResets = append(pathResets, func() { s3Stub = nil })
	H["github.com/jrhy/mast/persist/s3test.Client"] = func(fr *frame, a []value) value {
		return tuple{fakeS3(fr, "mem://s3db"), "bucket", (*value)(nil)}
	}
	H["github.com/aws/aws-sdk-go/aws/session.NewSession"] = func(fr *frame, a []value) value {
		ep := "aws"
		if len(a) > 0 {
			if cfgs, ok := a[0].([]value); ok && len(cfgs) > 0 {
				if cp, ok := cfgs[0].(*value); ok && cp != nil {
					cfgT := fr.i.prog.ImportedPackage("github.com/aws/aws-sdk-go/aws").Type("Config").Object().Type()
					if epp, ok := (*cp).(structure)[fieldIndex(cfgT, "Endpoint")].(*value); ok && epp != nil {
						ep = (*epp).(string)
					}
				}
			}
		}
		lastEndpoint = ep
		return tuple{(*value)(nil), iface{}}
	}
	H["github.com/aws/aws-sdk-go/service/s3.New"] = func(fr *frame, a []value) value { return fakeS3(fr, lastEndpoint) }
	for _, op := range []string{"GetObject", "PutObject", "DeleteObject", "ListObjectsV2"} {
		op := op
		H["(*github.com/aws/aws-sdk-go/service/s3.S3)."+op+"WithContext"] = func(fr *frame, a []value) value {
			if s3Stub == nil {
				panic(engineLimit{"no stub store registered (symS3Register)"})
			}
			st := s3Stub.(iface)
			var m *types.Func
			ms := fr.i.prog.MethodSets.MethodSet(st.t)
			for i := 0; i < ms.Len(); i++ {
				if ms.At(i).Obj().Name() == op+"WithContext" {
					m = ms.At(i).Obj().(*types.Func)
				}
			}
			if m == nil {
				panic(engineLimit{"stub store has no method " + op})
			}
			fn := fr.i.prog.LookupMethod(st.t, m.Pkg(), m.Name())
			return call(fr.i, fr, 0, fn, append([]value{st.v}, a[1:]...))
		}
	}
}

var lastEndpoint string
