package myinterp

// Path-event detectors (DESIGN §3.6): wrappers that look at the state a
// dependency's function is called in and mark the path, so that a known
// finding can be identified by "this state occurred" rather than by inputs.

import (
	"go/types"
)

func fieldIndex(t types.Type, name string) int {
	st, ok := t.Underlying().(*types.Struct)
	if !ok {
		return -1
	}
	for i := 0; i < st.NumFields(); i++ {
		if st.Field(i).Name() == name {
			return i
		}
	}
	return -1
}

func init() {
	// mast.Cursor.Backward decides "is there a left subtree" by looking at
	// Link[0] where it means Link[linkIndex]; the event marks calls in which
	// the two differ (a subtree is skipped, or a nil link is followed).
	PreHooks["(*github.com/jrhy/mast.Cursor).Backward"] = func(fr *frame, a []value) {
		defer func() {
			if r := recover(); r != nil {
				if _, ok := r.(pathAbort); ok {
					panic(r)
				}
				// shape not as expected: do not guess
			}
		}()
		mastPkg := fr.i.prog.ImportedPackage("github.com/jrhy/mast")
		curT := mastPkg.Type("Cursor").Object().Type()
		peT := mastPkg.Type("pathEntry").Object().Type()
		nodeT := mastPkg.Type("mastNode").Object().Type()
		innerT := mastPkg.Type("Node").Object().Type()
		cur := (*a[0].(*value)).(structure)
		path := cur[fieldIndex(curT, "path")].([]value)
		if len(path) == 0 {
			return
		}
		pe := path[len(path)-1].(structure)
		nodeP := pe[fieldIndex(peT, "node")].(*value)
		li := pe[fieldIndex(peT, "linkIndex")].(int)
		node := (*nodeP).(structure)
		inner := node[fieldIndex(nodeT, "Node")].(structure)
		links := inner[fieldIndex(innerT, "Link")].([]value)
		if len(links) == 0 || li >= len(links) {
			return
		}
		nil0 := links[0].(iface).t == nil
		nilI := links[li].(iface).t == nil
		if nil0 != nilI {
			X.events = append(X.events, "mast-backward-link-mismatch")
			X.St.Events["mast-backward-link-mismatch"]++
		}
	}
}

func init() {
	Intrinsics["symEventSeen"] = func(fr *frame, a []value) value {
		n := strArg(a[0])
		for _, e := range X.events {
			if e == n {
				return true
			}
		}
		return false
	}
}
