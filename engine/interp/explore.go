package myinterp

// Path exploration: DFS by re-execution with decision prefixes, one live
// solver process, per-path bookkeeping, violation records, known-finding
// signatures, standalone query dumps.

import (
	"bufio"
	"encoding/json"
	"fmt"
	"os"
	"os/exec"
	"regexp"
	"runtime"
	"sort"
	"strings"
	"time"
)

// ---- solver ----
type Solver struct {
	cmd    *exec.Cmd
	in     *bufio.Writer
	out    *bufio.Scanner
	N      int
	Sat    int
	Uns    int
	Unk    int
	T      time.Duration
	name   string
	cvc5   bool
	Broken bool
}

var SolverCmd = []string{"z3-new", "-in"}

func NewSolver() *Solver {
	c := exec.Command(SolverCmd[0], SolverCmd[1:]...)
	w, _ := c.StdinPipe()
	r, _ := c.StdoutPipe()
	c.Stderr = os.Stderr
	if err := c.Start(); err != nil {
		panic(err)
	}
	s := &Solver{cmd: c, in: bufio.NewWriter(w), out: bufio.NewScanner(r), name: SolverCmd[0]}
	s.out.Buffer(make([]byte, 1<<20), 1<<26)
	if strings.Contains(s.name, "cvc5") {
		s.cvc5 = true
		s.send("(set-option :produce-models true)")
		s.send("(set-option :incremental true)")
	}
	s.send("(set-logic ALL)")
	return s
}
func (s *Solver) Close() {
	s.send("(exit)")
	s.in.Flush()
	s.cmd.Process.Kill()
	s.cmd.Wait()
}
func (s *Solver) send(l string) { s.in.WriteString(l + "\n") }

// check asks whether the current context plus extra is satisfiable.  On sat
// or unknown the pushed frame is left in place (caller pops after reading a
// model); on unsat it is popped here.  With extra=="" nothing is pushed.
func (s *Solver) checkT(extra string, ms int) string {
	if s.cvc5 {
		s.send(fmt.Sprintf("(set-option :tlimit-per %d)", ms))
	} else {
		s.send(fmt.Sprintf("(set-option :timeout %d)", ms))
	}
	t0 := time.Now()
	s.N++
	if extra != "" {
		s.send("(push)")
		s.send("(assert " + extra + ")")
	}
	s.send("(check-sat)")
	s.in.Flush()
	if !s.out.Scan() {
		s.Broken = true
		panic(solverBroken{"solver died"})
	}
	r := s.out.Text()
	if strings.HasPrefix(r, "(error") {
		s.Broken = true
		panic(solverBroken{"solver error: " + r + " on " + trunc(extra, 300)})
	}
	switch r {
	case "sat":
		s.Sat++
	case "unsat":
		s.Uns++
	default:
		s.Unk++
		r = "unknown"
	}
	if extra != "" && r == "unsat" {
		s.send("(pop)")
	}
	d := time.Since(t0)
	s.T += d
	if d > 2*time.Second && os.Getenv("VERIF_SLOW") != "" {
		fmt.Fprintf(os.Stderr, "SLOW %v %s -> %s\n", d.Round(time.Millisecond), trunc(extra, 200), r)
	}
	return r
}

func trunc(s string, n int) string {
	if len(s) > n {
		return s[:n] + "..."
	}
	return s
}

// values returns the model values of the given terms (after a sat answer).
func (s *Solver) values(terms []string) []string {
	if len(terms) == 0 {
		return nil
	}
	s.send("(get-value (" + strings.Join(terms, " ") + "))")
	s.in.Flush()
	var sb strings.Builder
	depth := 0
	for s.out.Scan() {
		l := s.out.Text()
		sb.WriteString(l + " ")
		depth += strings.Count(l, "(") - strings.Count(l, ")")
		if depth <= 0 {
			break
		}
	}
	txt := sb.String()
	if strings.HasPrefix(strings.TrimSpace(txt), "(error") {
		panic(engineLimit{"solver error in get-value: " + trunc(txt, 300)})
	}
	// parse "((t1 v1) (t2 v2) ...)": we only need the v's, in order.
	sx := parseSexp(txt)
	out := make([]string, 0, len(terms))
	if l, ok := sx.([]any); ok {
		for _, p := range l {
			if pl, ok := p.([]any); ok && len(pl) == 2 {
				out = append(out, sexpString(pl[1]))
			}
		}
	}
	if len(out) != len(terms) {
		panic(engineLimit{"get-value parse: " + trunc(txt, 300)})
	}
	return out
}

func parseSexp(s string) any {
	pos := 0
	var rec func() any
	rec = func() any {
		for pos < len(s) && (s[pos] == ' ' || s[pos] == '\n' || s[pos] == '\t') {
			pos++
		}
		if pos >= len(s) {
			return nil
		}
		if s[pos] == '(' {
			pos++
			var l []any
			for {
				for pos < len(s) && (s[pos] == ' ' || s[pos] == '\n' || s[pos] == '\t') {
					pos++
				}
				if pos >= len(s) {
					return l
				}
				if s[pos] == ')' {
					pos++
					if l == nil {
						l = []any{}
					}
					return l
				}
				l = append(l, rec())
			}
		}
		if s[pos] == '"' {
			st := pos
			pos++
			for pos < len(s) && s[pos] != '"' {
				pos++
			}
			pos++
			return s[st:pos]
		}
		st := pos
		for pos < len(s) && s[pos] != ' ' && s[pos] != ')' && s[pos] != '(' && s[pos] != '\n' {
			pos++
		}
		return s[st:pos]
	}
	return rec()
}
func sexpString(x any) string {
	switch v := x.(type) {
	case string:
		return v
	case []any:
		p := make([]string, len(v))
		for i := range v {
			p[i] = sexpString(v[i])
		}
		return "(" + strings.Join(p, " ") + ")"
	}
	return ""
}

// modelValueToGo converts a solver value into the canonical string used in
// replay files: decimal for bit-vectors (signed interpretation at width),
// true/false for Bool.
func modelValueToGo(v string, sort string) string {
	v = strings.TrimSpace(v)
	if sort == "Bool" {
		return v
	}
	var u uint64
	w := 64
	fmt.Sscanf(sort, "(_ BitVec %d)", &w)
	switch {
	case strings.HasPrefix(v, "#x"):
		fmt.Sscanf(v[2:], "%x", &u)
	case strings.HasPrefix(v, "#b"):
		for _, c := range v[2:] {
			u = u<<1 | uint64(c-'0')
		}
	case strings.HasPrefix(v, "(_ bv"):
		fmt.Sscanf(v, "(_ bv%d", &u)
	default:
		return v
	}
	switch w {
	case 8:
		return fmt.Sprint(uint8(u))
	case 16:
		return fmt.Sprint(int16(u))
	case 32:
		return fmt.Sprint(int32(u))
	}
	return fmt.Sprint(int64(u))
}

// ---- records ----
type Violation struct {
	Harness   string            `json:"harness"`
	AssertID  string            `json:"assert_id"`
	Kind      string            `json:"kind"` // assert | panic | unwind | deadlock
	Msg       string            `json:"msg,omitempty"`
	Trace     []int             `json:"trace"`
	Choices   []int             `json:"choices"`
	Sched     []int             `json:"sched,omitempty"`
	Vars      map[string]string `json:"vars"`
	Kinds     map[string]string `json:"kinds,omitempty"`
	Events    []string          `json:"events,omitempty"`
	Obs       []string          `json:"obs,omitempty"`
	Known     string            `json:"known,omitempty"`
	Stack     []string          `json:"stack,omitempty"`
	UF        map[string]int    `json:"uf,omitempty"`
	Shuffles  []int             `json:"shuffles,omitempty"`
	SchedFull []int             `json:"sched_full,omitempty"`
}

type Sample struct {
	Trace     []int             `json:"trace"`
	Choices   []int             `json:"choices"`
	Sched     []int             `json:"sched,omitempty"`
	Vars      map[string]string `json:"vars"`
	Obs       []string          `json:"obs"`
	PCLen     int               `json:"pc_len"`
	PC        []string          `json:"pc,omitempty"`
	Events    []string          `json:"events,omitempty"`
	UF        map[string]int    `json:"uf,omitempty"`
	SchedFull []int             `json:"sched_full,omitempty"`
}

type KnownFinding struct {
	ID        string `json:"id"`
	Property  string `json:"property"`
	Harness   string `json:"harness"`
	AssertID  string `json:"assert_id"`
	Signature string `json:"signature"`
	Desc      string `json:"description"`
	Status    string `json:"status"`
}

type Stats struct {
	Paths        int            `json:"paths"`
	Aborted      int            `json:"aborted_assume"`
	Inconclusive int            `json:"inconclusive"`
	InconclWhy   map[string]int `json:"inconclusive_why,omitempty"`
	Asserts      int            `json:"asserts"`
	AssertIDs    map[string]int `json:"assert_ids"`
	Reach        map[string]int `json:"reach"`
	Infeas       int            `json:"infeasible_branches"`
	UnknownFeas  int            `json:"unknown_feasibility"`
	Spurious     int            `json:"spurious"`
	Queries      int            `json:"queries"`
	Sat          int            `json:"sat"`
	Unsat        int            `json:"unsat"`
	Unknown      int            `json:"unknown"`
	SolverS      float64        `json:"solver_s"`
	Funcs        map[string]int `json:"funcs"`
	Hooks        map[string]int `json:"hooks"`
	MaxSteps     int            `json:"max_steps"`
	Dumped       int            `json:"dumped_queries"`
	DistinctPC   int            `json:"distinct_pc"`
	Events       map[string]int `json:"events,omitempty"`
}

type ufApp struct{ fn, arg, res string }

// ufTable evaluates the recorded uninterpreted-function applications under
// the current model: "fn(arg)" -> value (for the native replay).
func (e *Explorer) ufTable() map[string]int {
	if len(e.ufApps) == 0 {
		return nil
	}
	var terms []string
	for _, u := range e.ufApps {
		terms = append(terms, u.arg, u.res)
	}
	vals := e.S.values(terms)
	m := map[string]int{}
	for i, u := range e.ufApps {
		a := modelValueToGo(vals[2*i], "(_ BitVec 64)")
		var r int
		fmt.Sscanf(modelValueToGo(vals[2*i+1], "(_ BitVec 8)"), "%d", &r)
		m[u.fn+"("+a+")"] = r
	}
	return m
}

type obsItem struct {
	name string
	term string // SMT term if symbolic
	val  string // canonical string if concrete
	sort string
}

type Explorer struct {
	S         *Solver
	Harness   string
	prefix    []int
	pos       int
	trace     []int
	Work      [][]int
	decls     map[string]string
	names     []string
	declLine  []string
	pc        []string
	choices   []int
	sched     []int
	shuffles  []int
	schedFull []int
	obs       []obsItem
	events    []string
	ufApps    []ufApp
	violated  bool
	steps     int
	St        Stats
	Viol      []Violation
	Samples   []Sample
	Known     []KnownFinding
	pcSeen    map[string]bool
	retries   map[string]int
	model     map[string]evalVal // the last model, if it still satisfies the path condition
	modelOK   bool
	ModelEval bool // experimental accelerator (eval.go); off: it saved 44% of the queries but no time

	FeasMS     int
	AssertMS   int
	MaxSteps   int
	SampleN    int
	SampleSeed int
	DumpDir    string
	DumpMax    int
	KeepPC     bool
	summary    *os.File
}

var X *Explorer

type pathAbort struct{ why string }    // silently drop the path (assume false / infeasible)
type engineLimit struct{ why string }  // path is inconclusive
type pathDone struct{}                 // stop the path after a recorded violation
type solverBroken struct{ why string } // the solver process lost sync: restart it and retry the path

func NewExplorer(h string) *Explorer {
	e := &Explorer{S: NewSolver(), Harness: h, FeasMS: 1500, AssertMS: 120000, MaxSteps: 4000000, SampleN: 3, DumpMax: 40}
	e.St.AssertIDs = map[string]int{}
	e.St.Reach = map[string]int{}
	e.St.Funcs = map[string]int{}
	e.St.Hooks = map[string]int{}
	e.St.InconclWhy = map[string]int{}
	e.St.Events = map[string]int{}
	e.pcSeen = map[string]bool{}
	e.retries = map[string]int{}
	return e
}

var pathResets []func()

func (e *Explorer) begin(prefix []int) {
	schedReset()
	for _, f := range pathResets {
		f()
	}
	e.prefix, e.pos, e.trace = prefix, 0, nil
	e.decls = map[string]string{}
	e.names, e.declLine, e.pc = nil, nil, nil
	e.choices, e.sched, e.obs, e.events = nil, nil, nil, nil
	e.ufApps = nil
	e.shuffles = nil
	e.schedFull = nil
	e.modelOK = false
	e.violated = false
	e.steps = 0
	e.S.send("(push)")
}

func (e *Explorer) end(completed bool) {
	if completed {
		e.St.Paths++
		key := strings.Join(e.pc, "&")
		if !e.pcSeen[key] {
			e.pcSeen[key] = true
			e.St.DistinctPC++
		}
		if e.summary != nil {
			e.writeSummaryPath()
		}
		// keep a sample (with a model) for a deterministic subset of paths
		if !e.violated && (len(e.Samples) < e.SampleN && (e.SampleN > 20 || (e.St.Paths+e.SampleSeed)%7 == 1) || len(e.Samples) == 0) {
			if len(e.Samples) < e.SampleN+1 {
				e.takeSample()
			}
		}
	}
	if e.steps > e.St.MaxSteps {
		e.St.MaxSteps = e.steps
	}
	e.S.send("(pop)")
}

func (e *Explorer) takeSample() {
	r := e.S.checkT("", e.AssertMS)
	if r != "sat" {
		return
	}
	s := Sample{Trace: append([]int{}, e.trace...), Choices: append([]int{}, e.choices...), Sched: append([]int{}, e.sched...),
		Vars: e.modelVars(), PCLen: len(e.pc), Events: append([]string{}, e.events...)}
	if e.KeepPC {
		s.PC = append([]string{}, e.pc...)
	}
	s.Obs = e.evalObs()
	s.UF = e.ufTable()
	s.SchedFull = append([]int{}, e.schedFull...)
	e.Samples = append(e.Samples, s)
}

func (e *Explorer) modelVars() map[string]string {
	m := map[string]string{}
	if len(e.names) == 0 {
		return m
	}
	vals := e.S.values(e.names)
	for i, n := range e.names {
		m[n] = modelValueToGo(vals[i], e.decls[n])
	}
	return m
}

// evalObs evaluates the observations under the current model.
func (e *Explorer) evalObs() []string {
	var terms []string
	for _, o := range e.obs {
		if o.term != "" {
			terms = append(terms, o.term)
		}
	}
	vals := e.S.values(terms)
	var out []string
	k := 0
	for _, o := range e.obs {
		if o.term != "" {
			out = append(out, o.name+"="+modelValueToGo(vals[k], o.sort))
			k++
		} else {
			out = append(out, o.name+"="+o.val)
		}
	}
	return out
}

func (e *Explorer) decl(name, sort string) {
	if s, ok := e.decls[name]; ok {
		if s != sort {
			panic(engineLimit{"redeclared with different sort: " + name})
		}
		return
	}
	e.decls[name] = sort
	e.names = append(e.names, name)
	l := fmt.Sprintf("(declare-const %s %s)", name, sort)
	e.declLine = append(e.declLine, l)
	e.S.send(l)
	if v, ok := ReplayVars[name]; ok {
		if sort == "Bool" {
			e.assertPC("(= " + name + " " + v + ")")
		} else {
			var w int
			fmt.Sscanf(sort, "(_ BitVec %d)", &w)
			var x int64
			fmt.Sscanf(v, "%d", &x)
			u := uint64(x)
			if w < 64 {
				u &= (1 << uint(w)) - 1
			}
			e.assertPC(fmt.Sprintf("(= %s (_ bv%d %d))", name, u, w))
		}
	}
}

// engine-side replay of a recorded path (debugging aid): variables are pinned
// to the recorded model, symChoice follows the recorded choices.
var ReplayVars = map[string]string{}
var ReplayChoices []int
var ReplayUF = map[string]int{}
var ReplayOn bool

func (e *Explorer) declFun(name, sig string) {
	if _, ok := e.decls["fun:"+name]; ok {
		return
	}
	e.decls["fun:"+name] = sig
	l := fmt.Sprintf("(declare-fun %s %s)", name, sig)
	e.declLine = append(e.declLine, l)
	e.S.send(l)
}

func (e *Explorer) assertPC(c string) {
	e.S.send("(assert " + c + ")")
	e.pc = append(e.pc, c)
	if e.modelOK {
		// the model survives only if it satisfies the new conjunct
		if v, ok := e.evalTerm(c); !ok || !v.isBool || !v.b {
			e.modelOK = false
		}
	}
}

// assertImplied: a conjunct that the current model is known to satisfy.
func (e *Explorer) assertImplied(c string) {
	e.S.send("(assert " + c + ")")
	e.pc = append(e.pc, c)
}

// fetchModel reads the model of the last sat answer (its frame must still be in place).
func (e *Explorer) fetchModel() {
	e.model = map[string]evalVal{}
	e.modelOK = false
	if len(e.names) == 0 {
		e.modelOK = true
		return
	}
	vals := e.S.values(e.names)
	for i, n := range e.names {
		sort := e.decls[n]
		v := strings.TrimSpace(vals[i])
		if sort == "Bool" {
			e.model[n] = evalVal{isBool: true, b: v == "true"}
			continue
		}
		var w int
		if _, err := fmt.Sscanf(sort, "(_ BitVec %d)", &w); err != nil || w > 64 {
			continue
		}
		var u uint64
		switch {
		case strings.HasPrefix(v, "#x"):
			fmt.Sscanf(v[2:], "%x", &u)
		case strings.HasPrefix(v, "#b"):
			for _, ch := range v[2:] {
				u = u<<1 | uint64(ch-'0')
			}
		case strings.HasPrefix(v, "(_ bv"):
			fmt.Sscanf(v, "(_ bv%d", &u)
		default:
			continue
		}
		e.model[n] = evalVal{v: u & mask(w), w: w}
	}
	e.modelOK = true
}

// decide chooses among n alternatives; cons(i) is the constraint of
// alternative i ("" = unconstrained).
func (e *Explorer) decide(n int, cons func(i int) string) int {
	if e.pos < len(e.prefix) {
		d := e.prefix[e.pos]
		e.pos++
		e.trace = append(e.trace, d)
		if c := cons(d); c != "" {
			e.assertPC(c)
		}
		return d
	}
	e.pos++
	first := -1
	for i := 0; i < n; i++ {
		c := cons(i)
		ok := true
		if c != "" {
			r := e.S.checkT(c, e.FeasMS)
			if r == "sat" {
				e.S.send("(pop)")
			} else if r == "unsat" {
				ok = false
				e.St.Infeas++
			} else {
				e.S.send("(pop)")
				e.St.UnknownFeas++
			}
		}
		if !ok {
			continue
		}
		if first < 0 {
			first = i
		} else {
			alt := append(append(make([]int, 0, len(e.trace)+1), e.trace...), i)
			e.Work = append(e.Work, alt)
		}
	}
	if first < 0 {
		panic(pathAbort{"infeasible"})
	}
	e.trace = append(e.trace, first)
	if c := cons(first); c != "" {
		e.assertPC(c)
	}
	return first
}

func (e *Explorer) branch(c sym) bool {
	if c.term == "true" {
		return true
	}
	if c.term == "false" {
		return false
	}
	if e.pos >= len(e.prefix) && e.ModelEval {
		if d, ok := e.branchWithModel(c); ok {
			return d == 0
		}
	}
	e.modelOK = false
	d := e.decide(2, func(i int) string {
		if i == 0 {
			return c.term
		}
		return "(not " + c.term + ")"
	})
	return d == 0
}

// branchWithModel decides a fresh two-way branch with one solver query: the
// side that the current model satisfies needs none.
func (e *Explorer) branchWithModel(c sym) (int, bool) {
	if !e.modelOK {
		if r := e.S.checkT("", e.FeasMS); r != "sat" {
			return 0, false
		}
		e.fetchModel()
		if !e.modelOK {
			return 0, false
		}
	}
	v, ok := e.evalTerm(c.term)
	if !ok || !v.isBool {
		return 0, false
	}
	side := func(i int) string {
		if i == 0 {
			return c.term
		}
		return "(not " + c.term + ")"
	}
	known := 1
	if v.b {
		known = 0
	}
	other := 1 - known
	e.pos++
	r := e.S.checkT(side(other), e.FeasMS)
	if r == "unsat" {
		e.St.Infeas++
		e.trace = append(e.trace, known)
		e.assertImplied(side(known))
		return known, true
	}
	if r != "sat" {
		e.St.UnknownFeas++
	}
	// both sides are feasible (or the other one is kept): side 0 is explored first
	if other == 0 {
		if r == "sat" {
			e.fetchModel() // a model of the side we are about to follow
		} else {
			e.modelOK = false
		}
	}
	e.S.send("(pop)")
	alt := append(append(make([]int, 0, len(e.trace)+1), e.trace...), 1)
	e.Work = append(e.Work, alt)
	e.trace = append(e.trace, 0)
	e.assertImplied(side(0))
	return 0, true
}

// concretize forks over the values 0..n-1 of an integer term.
func (e *Explorer) concretize(x sym, n int) int {
	return e.decide(n, func(i int) string {
		return "(= " + x.term + " " + lift(convInt(x.kind, int64(i))).term + ")"
	})
}

var identRe = regexp.MustCompile(`[A-Za-z_][A-Za-z0-9_.$]*`)
var eventRe = regexp.MustCompile(`\(event ([A-Za-z0-9_.:\-]+)\)`)

// sigTerm instantiates a known-finding signature on the current path;
// ok=false if it refers to a variable that is not declared on this path.
func (e *Explorer) sigTerm(sig string) (string, bool) {
	ev := map[string]bool{}
	for _, x := range e.events {
		ev[x] = true
	}
	s := eventRe.ReplaceAllStringFunc(sig, func(m string) string {
		n := eventRe.FindStringSubmatch(m)[1]
		if ev[n] {
			return "true"
		}
		return "false"
	})
	// (choice i) -> value of the i-th symChoice on this path (or -1)
	s = regexp.MustCompile(`\(choice ([0-9]+)\)`).ReplaceAllStringFunc(s, func(m string) string {
		var i int
		fmt.Sscanf(m, "(choice %d)", &i)
		if i < len(e.choices) {
			return fmt.Sprint(e.choices[i])
		}
		return "(- 1)"
	})
	for _, id := range identRe.FindAllString(s, -1) {
		if strings.HasPrefix(id, "v_") || strings.HasPrefix(id, "in_") {
			if _, ok := e.decls[id]; !ok {
				return "", false
			}
		}
	}
	return s, true
}

// report records a violation of assert id.  negCond is the negated
// condition ("" when the condition was concretely false).  Returns true if
// the path should continue (violation recorded or not, cond then assumed).
func (e *Explorer) report(kind, id, msg, negCond string) {
	// 1. is it feasible at all?
	r := e.S.checkT(negCond, e.AssertMS)
	if r == "unsat" {
		if negCond == "" {
			e.St.Spurious++
		}
		return
	}
	if r == "unknown" {
		if negCond != "" {
			e.S.send("(pop)")
		}
		ans, model := e.portfolio(negCond)
		switch ans {
		case "unsat":
			if negCond == "" {
				e.St.Spurious++
			}
			return
		case "sat":
			v := Violation{Harness: e.Harness, AssertID: id, Kind: kind, Msg: msg + " (portfolio)"}
			v.Trace = append([]int{}, e.trace...)
			v.Choices = append([]int{}, e.choices...)
			v.Sched = append([]int{}, e.sched...)
			v.Vars = model
			v.Events = append([]string{}, e.events...)
			// known-finding signatures are not evaluated on this path: report as new
			e.Viol = append(e.Viol, v)
			e.violated = true
			return
		}
		e.St.Inconclusive++
		e.St.InconclWhy["assert-unknown:"+id]++
		return
	}
	// sat: frame with negCond is pushed (if negCond != "")
	e.dumpQuery(id, negCond, "sat")
	v := Violation{Harness: e.Harness, AssertID: id, Kind: kind, Msg: msg}
	known := ""
	extra := ""
	for _, k := range e.Known {
		if k.Status == "fixed" || k.Harness != e.Harness || (k.AssertID != id && k.AssertID != "*") {
			continue
		}
		st, ok := e.sigTerm(k.Signature)
		if !ok {
			continue
		}
		known = k.ID
		extra += " (not " + st + ")"
	}
	if known != "" {
		// is there an instance outside all listed signatures?
		r2 := e.S.checkT("(and true"+extra+")", e.AssertMS)
		if r2 == "unsat" {
			v.Known = known
			// model for the record: from the frame below
			if e.S.checkT("", e.AssertMS) != "sat" {
				panic(engineLimit{"model lost"})
			}
			e.fillViolation(&v)
		} else if r2 == "unknown" {
			e.S.send("(pop)")
			e.St.Inconclusive++
			e.St.InconclWhy["known-sig-unknown:"+id]++
			if negCond != "" {
				e.S.send("(pop)")
			}
			return
		}
		// r2 == sat: model is outside the signatures -> new violation; frame pushed
		if r2 == "sat" {
			e.fillViolation(&v)
			e.S.send("(pop)")
		}
	} else {
		e.fillViolation(&v)
	}
	if negCond != "" {
		e.S.send("(pop)")
	}
	e.Viol = append(e.Viol, v)
	e.violated = true
}

func (e *Explorer) fillViolation(v *Violation) {
	v.Trace = append([]int{}, e.trace...)
	v.Choices = append([]int{}, e.choices...)
	v.Sched = append([]int{}, e.sched...)
	v.Shuffles = append([]int{}, e.shuffles...)
	v.SchedFull = append([]int{}, e.schedFull...)
	v.Vars = e.modelVars()
	v.Events = append([]string{}, e.events...)
	v.Obs = e.evalObs()
	v.UF = e.ufTable()
	n := len(Stack)
	for i := n - 1; i >= 0 && i > n-8; i-- {
		v.Stack = append(v.Stack, Stack[i])
	}
}

func (e *Explorer) dumpQuery(id, extra, answer string) {
	if e.DumpDir == "" || e.St.Dumped >= e.DumpMax {
		return
	}
	e.St.Dumped++
	var sb strings.Builder
	sb.WriteString("; harness " + e.Harness + " assert " + id + " expected " + answer + "\n(set-logic ALL)\n")
	for _, l := range e.declLine {
		sb.WriteString(l + "\n")
	}
	for _, c := range e.pc {
		sb.WriteString("(assert " + c + ")\n")
	}
	if extra != "" {
		sb.WriteString("(assert " + extra + ")\n")
	}
	sb.WriteString("(check-sat)\n")
	fn := fmt.Sprintf("%s/%s-%s-%d-%d.smt2", e.DumpDir, e.Harness, sanitize(id), os.Getpid(), e.St.Dumped)
	os.WriteFile(fn, []byte(sb.String()), 0o644)
}

func sanitize(s string) string {
	return regexp.MustCompile(`[^A-Za-z0-9_.-]`).ReplaceAllString(s, "_")
}

// Assert implements symAssert.
func (e *Explorer) Assert(c value, id string) {
	e.St.Asserts++
	e.St.AssertIDs[id]++
	if sc, ok := c.(sym); ok {
		if sc.term == "true" {
			return
		}
		neg := "(not " + sc.term + ")"
		nv := len(e.Viol)
		ni := e.St.Inconclusive
		e.report("assert", id, "", neg)
		if len(e.Viol) == nv && e.St.Inconclusive == ni {
			e.dumpQuery(id, neg, "unsat")
		}
		// continue under the assumption that it holds (if that is possible)
		r := e.S.checkT(sc.term, e.FeasMS)
		if r == "unsat" {
			panic(pathDone{})
		}
		e.S.send("(pop)")
		e.assertPC(sc.term)
		return
	}
	if !c.(bool) {
		e.report("assert", id, "", "")
		panic(pathDone{})
	}
}

// RunAll explores paths starting from the given work items, at most budget
// paths; leftover work is returned.
func (e *Explorer) RunAll(run func(), work [][]int, budget int) [][]int {
	X = e
	e.Work = work
	n := 0
	for len(e.Work) > 0 && (budget <= 0 || n < budget) {
		p := e.Work[len(e.Work)-1]
		e.Work = e.Work[:len(e.Work)-1]
		n++
		if e.S.Broken {
			e.restartSolver()
		}
		e.begin(p)
		completed := e.runOne(run)
		SC.killAll()
		if e.S.Broken {
			// retry this path (at most twice) on a fresh solver
			key := fmt.Sprint(p)
			e.retries[key]++
			if e.retries[key] <= 2 {
				e.Work = append(e.Work, p)
				n--
				continue
			}
			e.inconclusive("solver failed repeatedly on this path")
			continue
		}
		e.end(completed)
	}
	e.St.Queries = e.S.N
	e.St.Sat, e.St.Unsat, e.St.Unknown = e.S.Sat, e.S.Uns, e.S.Unk
	e.St.SolverS = e.S.T.Seconds()
	for k, v := range HookHits {
		e.St.Hooks[k] = v
	}
	left := e.Work
	e.Work = nil
	return left
}

func (e *Explorer) inconclusive(why string) {
	e.St.Inconclusive++
	if len(why) > 160 {
		why = why[:160]
	}
	st := ""
	n := len(Stack)
	for i := n - 1; i >= 0 && i > n-4; i-- {
		st += " < " + Stack[i]
	}
	e.St.InconclWhy[why+st]++
}

func (e *Explorer) runOne(run func()) (completed bool) {
	defer func() {
		r := recover()
		if r == nil {
			completed = true
			return
		}
		defer func() {
			Panicked = false
			Stack = nil
		}()
		switch p := r.(type) {
		case pathAbort:
			if strings.HasPrefix(p.why, "DEADLOCK") {
				e.St.AssertIDs["no-deadlock"]++
				e.report("deadlock", "no-deadlock", p.why, "")
				completed = true
				return
			}
			e.St.Aborted++
			return
		case pathDone:
			completed = true
			return
		case solverBroken:
			return
		case engineLimit:
			e.inconclusive(p.why)
			return
		case unwindAbort:
			e.St.AssertIDs["unwind"]++
			e.report("unwind", "unwind", p.why, "")
			completed = true
			return
		case targetPanic:
			e.St.AssertIDs["no-panic"]++
			e.report("panic", "no-panic", toString(p.v), "")
			completed = true
			return
		case runtime.Error:
			msg := p.Error()
			if strings.Contains(msg, "myinterp.") || strings.Contains(msg, "interface conversion: myinterp") {
				e.inconclusive("engine: " + msg)
				return
			}
			e.St.AssertIDs["no-panic"]++
			e.report("panic", "no-panic", "runtime error: "+msg, "")
			completed = true
			return
		case string:
			if strings.HasPrefix(p, "interface conversion") || strings.HasPrefix(p, "method invoked on nil") || strings.HasPrefix(p, "call of nil function") {
				e.St.AssertIDs["no-panic"]++
				e.report("panic", "no-panic", p, "")
				completed = true
				return
			}
			e.inconclusive("engine: " + p)
			return
		}
		e.inconclusive(fmt.Sprintf("engine: %T %v", r, r))
	}()
	run()
	return
}

type unwindAbort struct{ why string }

// ---- worker result ----
type WorkerResult struct {
	Stats    Stats       `json:"stats"`
	Viol     []Violation `json:"violations"`
	Samples  []Sample    `json:"samples"`
	Leftover [][]int     `json:"leftover"`
}

func (e *Explorer) Result(left [][]int) WorkerResult {
	return WorkerResult{Stats: e.St, Viol: e.Viol, Samples: e.Samples, Leftover: left}
}

// ResetResults clears per-batch accumulators (worker keeps running).
func (e *Explorer) ResetResults() {
	old := e.St
	e.St = Stats{AssertIDs: map[string]int{}, Reach: map[string]int{}, Funcs: map[string]int{}, Hooks: map[string]int{}, InconclWhy: map[string]int{}, Events: map[string]int{}}
	_ = old
	e.Viol = nil
	e.Samples = nil
	e.S.N, e.S.Sat, e.S.Uns, e.S.Unk, e.S.T = 0, 0, 0, 0, 0
	HookHits = map[string]int{}
}

func MergeStats(a *Stats, b Stats) {
	a.Paths += b.Paths
	a.Aborted += b.Aborted
	a.Inconclusive += b.Inconclusive
	a.Asserts += b.Asserts
	a.Infeas += b.Infeas
	a.UnknownFeas += b.UnknownFeas
	a.Spurious += b.Spurious
	a.Queries += b.Queries
	a.Sat += b.Sat
	a.Unsat += b.Unsat
	a.Unknown += b.Unknown
	a.SolverS += b.SolverS
	a.Dumped += b.Dumped
	a.DistinctPC += b.DistinctPC
	if b.MaxSteps > a.MaxSteps {
		a.MaxSteps = b.MaxSteps
	}
	mm := func(x *map[string]int, y map[string]int) {
		if *x == nil {
			*x = map[string]int{}
		}
		for k, v := range y {
			(*x)[k] += v
		}
	}
	mm(&a.AssertIDs, b.AssertIDs)
	mm(&a.Reach, b.Reach)
	mm(&a.Funcs, b.Funcs)
	mm(&a.Hooks, b.Hooks)
	mm(&a.InconclWhy, b.InconclWhy)
	mm(&a.Events, b.Events)
}

func LoadKnown(path string) []KnownFinding {
	b, err := os.ReadFile(path)
	if err != nil {
		return nil
	}
	var f struct {
		Findings []KnownFinding `json:"findings"`
	}
	if err := json.Unmarshal(b, &f); err != nil {
		panic("known findings: " + err.Error())
	}
	return f.Findings
}

func sortedKeys(m map[string]int) []string {
	var k []string
	for x := range m {
		k = append(k, x)
	}
	sort.Strings(k)
	return k
}

var Params = map[string]int{}

func (e *Explorer) OpenSummary(path string) {
	f, err := os.Create(path)
	if err != nil {
		panic(err)
	}
	e.summary = f
}
func (e *Explorer) CloseSummary() {
	if e.summary != nil {
		e.summary.Close()
	}
}

func init() {
	// symParam(name, default): tier parameter of the harness (concrete)
	Intrinsics["symParam"] = func(fr *frame, a []value) value {
		if v, ok := Params[strArg(a[0])]; ok {
			return v
		}
		return a[1]
	}
}

// portfolio re-runs a verdict query that the live solver could not decide as
// a standalone script on cvc5 and z3 in parallel with the long limit.
func (e *Explorer) portfolio(extra string) (string, map[string]string) {
	var sb strings.Builder
	sb.WriteString("(set-option :produce-models true)\n(set-logic ALL)\n")
	for _, l := range e.declLine {
		sb.WriteString(l + "\n")
	}
	for _, c := range e.pc {
		sb.WriteString("(assert " + c + ")\n")
	}
	if extra != "" {
		sb.WriteString("(assert " + extra + ")\n")
	}
	sb.WriteString("(check-sat)\n")
	f, err := os.CreateTemp("", "verif-pf-*.smt2")
	if err != nil {
		return "unknown", nil
	}
	defer os.Remove(f.Name())
	f.WriteString(sb.String())
	f.Close()
	secs := e.AssertMS/1000 + 1
	type ans struct{ r, who string }
	ch := make(chan ans, 2)
	cmds := [][]string{
		{"cvc5", "--lang", "smt2", fmt.Sprintf("--tlimit=%d", secs*1000), f.Name()},
		{"z3-new", fmt.Sprintf("-T:%d", secs), f.Name()},
	}
	var procs []*exec.Cmd
	for _, c := range cmds {
		cmd := exec.Command(c[0], c[1:]...)
		procs = append(procs, cmd)
		go func(cmd *exec.Cmd, who string) {
			out, _ := cmd.Output()
			l := strings.TrimSpace(strings.SplitN(string(out), "\n", 2)[0])
			ch <- ans{l, who}
		}(cmd, c[0])
	}
	res := "unknown"
	for i := 0; i < len(cmds); i++ {
		a := <-ch
		e.St.Queries++
		if a.r == "sat" || a.r == "unsat" {
			res = a.r
			break
		}
	}
	for _, p := range procs {
		if p.Process != nil {
			p.Process.Kill()
		}
	}
	if res != "sat" {
		return res, nil
	}
	// model: ask z3 again with get-value (rarely needed)
	if len(e.names) == 0 {
		return res, map[string]string{}
	}
	f2, _ := os.CreateTemp("", "verif-pf-*.smt2")
	defer os.Remove(f2.Name())
	f2.WriteString(strings.Replace(sb.String(), "(check-sat)\n", "(check-sat)\n(get-value ("+strings.Join(e.names, " ")+"))\n", 1))
	f2.Close()
	for _, c := range [][]string{{"cvc5", "--lang", "smt2", fmt.Sprintf("--tlimit=%d", secs*1000), f2.Name()}, {"z3-new", fmt.Sprintf("-T:%d", secs), f2.Name()}} {
		out, _ := exec.Command(c[0], c[1:]...).Output()
		txt := string(out)
		if !strings.HasPrefix(txt, "sat") {
			continue
		}
		sx := parseSexp(strings.TrimSpace(txt[3:]))
		m := map[string]string{}
		if l, ok := sx.([]any); ok {
			for _, p := range l {
				if pl, ok := p.([]any); ok && len(pl) == 2 {
					n := sexpString(pl[0])
					m[n] = modelValueToGo(sexpString(pl[1]), e.decls[n])
				}
			}
		}
		return "sat", m
	}
	return "unknown", nil
}

func (e *Explorer) restartSolver() {
	old := e.S
	old.cmd.Process.Kill()
	old.cmd.Wait()
	ns := NewSolver()
	ns.N, ns.Sat, ns.Uns, ns.Unk, ns.T = old.N, old.Sat, old.Uns, old.Unk, old.T
	e.S = ns
}
