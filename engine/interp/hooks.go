package myinterp

// Environment models (DESIGN §4): every intercept here is part of the claim.

import (
	"crypto/sha256"
	"encoding/base64"
	"fmt"
	"go/token"
	"go/types"
	"math"
	"math/big"
	"sort"
	"strconv"
	"strings"

	"golang.org/x/tools/go/ssa"
)

var (
	registry  = map[string]value{} // opaque codec: handle -> registered deep copy
	regOrder  []string
	regN      int
	bigInts   = map[*value]*big.Int{}
	nowCount  int
	wgCount   = map[*value]int{}
	mtxHeld   = map[*value]*fiber{}
	onceDone  = map[*value]bool{}
	ufCounter int
)

func init() {
	pathResets = append(pathResets, func() {
		registry = map[string]value{}
		regOrder = nil
		regN = 0
		bigInts = map[*value]*big.Int{}
		nowCount = 0
		wgCount = map[*value]int{}
		mtxHeld = map[*value]*fiber{}
		onceDone = map[*value]bool{}
		ufCounter = 0
	})
}

func goBytes(v value) []byte {
	s := v.([]value)
	b := make([]byte, len(s))
	for i := range s {
		c, ok := s[i].(uint8)
		if !ok {
			panic(engineLimit{"symbolic byte reaches a concrete-only model"})
		}
		b[i] = c
	}
	return b
}
func interpBytes(b []byte) value {
	s := make([]value, len(b))
	for i := range b {
		s[i] = b[i]
	}
	return s
}
func goArg(v value) any {
	if x, ok := v.(iface); ok {
		v = x.v
	}
	switch x := v.(type) {
	case string, int, int64, uint, uint64, bool, uint8, int32, float64, uint32, int8, int16, uint16:
		return x
	case sym:
		return "<sym>"
	case *symstr:
		return "<symstr>"
	case *value:
		if x == nil {
			return "<nil>"
		}
		if s, ok := (*x).(string); ok {
			return "&" + s
		}
		return "<ptr>"
	case nil:
		return "<nil>"
	}
	return fmt.Sprintf("<%T>", v)
}
func hostErr(fr *frame, msg string) value { return iface{fr.i.runtimeErrorString, msg} }

// normalize applies proto3/omitempty presence rules to a deep copy: empty
// slices and maps decode as nil.
func deepCopy(v value) value { return deepCopyN(v, false) }

func deepCopyN(v value, norm bool) value {
	switch x := v.(type) {
	case structure:
		n := make(structure, len(x))
		for i := range x {
			n[i] = deepCopyN(x[i], norm)
		}
		return n
	case array:
		n := make(array, len(x))
		for i := range x {
			n[i] = deepCopyN(x[i], norm)
		}
		return n
	case []value:
		if x == nil || (norm && len(x) == 0) {
			return []value(nil)
		}
		n := make([]value, len(x))
		for i := range x {
			n[i] = deepCopyN(x[i], norm)
		}
		return n
	case *value:
		if x == nil {
			return x
		}
		c := deepCopyN(*x, norm)
		return &c
	case iface:
		return iface{x.t, deepCopyN(x.v, norm)}
	case map[value]value:
		if x == nil || (norm && len(x) == 0) {
			return map[value]value(nil)
		}
		n := make(map[value]value, len(x))
		for k, e := range x {
			n[k] = deepCopyN(e, norm)
		}
		return n
	case *hashmap:
		if x == nil {
			return x
		}
		panic(engineLimit{"deepCopy of hashmap"})
	}
	return v
}

type finalizerRec struct{ obj, fin iface }

var finalizers []finalizerRec

func errorIface() *types.Interface {
	return types.Universe.Lookup("error").Type().Underlying().(*types.Interface)
}

// put registers content under a canonical handle: equal content (decided
// structurally, forking if the equality is symbolic) gets the same handle.
// This is the injective content naming of DESIGN §4.4.
func put(prefix string, v value) value {
	c := deepCopyN(v, true)
	for _, h := range regOrder {
		if !strings.HasPrefix(h, prefix) {
			continue
		}
		r := deepEqValue(registry[h], c)
		switch t := r.(type) {
		case bool:
			if t {
				return interpBytes([]byte(h))
			}
		case sym:
			if X.branch(t) {
				return interpBytes([]byte(h))
			}
		}
	}
	regN++
	h := fmt.Sprintf("%s%04d", prefix, regN)
	registry[h] = c
	regOrder = append(regOrder, h)
	return interpBytes([]byte(h))
}

func init() {
	H := Hooks
	// Finalizers are recorded, not run: there is no garbage collector.  A
	// harness that has dropped every handle whose finalizer could object calls
	// symRunFinalizers(), which runs all recorded finalizers (what a GC cycle
	// would do to the unreachable ones).
	H["runtime.SetFinalizer"] = func(fr *frame, a []value) value {
		obj, fin := a[0].(iface), a[1].(iface)
		for i, f := range finalizers {
			if f.obj.v == obj.v {
				finalizers = append(finalizers[:i], finalizers[i+1:]...)
				break
			}
		}
		if fin.t != nil {
			finalizers = append(finalizers, finalizerRec{obj, fin})
		}
		return nil
	}
	Intrinsics["symRunFinalizers"] = func(fr *frame, a []value) value {
		fs := finalizers
		finalizers = nil
		for _, f := range fs {
			call(fr.i, fr, token.NoPos, f.fin.v, []value{f.obj.v})
		}
		return nil
	}
	pathResets = append(pathResets, func() { finalizers = nil })
	H["runtime.KeepAlive"] = func(fr *frame, a []value) value { return nil }
	// rand.Shuffle performs its swaps with decided indices: every permutation
	// is a path (Fisher-Yates with symChoice).
	H["math/rand.Shuffle"] = func(fr *frame, a []value) value {
		n := a[0].(int)
		if shuffleIdentity {
			return nil
		}
		for i := n - 1; i > 0; i-- {
			j := X.decide(i+1, func(int) string { return "" })
			X.shuffles = append(X.shuffles, j)
			call(fr.i, fr, token.NoPos, a[1], []value{i, j})
		}
		return nil
	}
	H["fmt.Sprintf"] = func(fr *frame, a []value) value {
		var args []any
		for _, x := range a[1].([]value) {
			args = append(args, goArg(x))
		}
		return fmt.Sprintf(a[0].(string), args...)
	}
	H["fmt.Sprint"] = func(fr *frame, a []value) value {
		var args []any
		for _, x := range a[0].([]value) {
			args = append(args, goArg(x))
		}
		return fmt.Sprint(args...)
	}
	H["fmt.Printf"] = func(fr *frame, a []value) value { return tuple{0, iface{}} }
	H["fmt.Println"] = func(fr *frame, a []value) value { return tuple{0, iface{}} }
	H["fmt.Errorf"] = func(fr *frame, a []value) value {
		var inner value
		var args []any
		for _, x := range a[1].([]value) {
			args = append(args, goArg(x))
			if xi, ok := x.(iface); ok && xi.t != nil && inner == nil {
				if types.Implements(xi.t, errorIface()) {
					inner = xi
				}
			}
		}
		msg := "ERR:" + a[0].(string) + fmt.Sprint(args...)
		if inner == nil || !strings.Contains(a[0].(string), "%w") {
			return hostErr(fr, msg)
		}
		t := fr.i.prog.ImportedPackage("fmt").Type("wrapError").Object().Type()
		var cell value = structure{msg, inner}
		return iface{types.NewPointer(t), &cell}
	}
	unwrap1 := func(err iface) (iface, bool) {
		if p, ok := err.t.(*types.Pointer); ok {
			if n, ok := p.Elem().(*types.Named); ok && n.Obj().Name() == "wrapError" && n.Obj().Pkg().Path() == "fmt" {
				in, _ := (*err.v.(*value)).(structure)[1].(iface)
				return in, true
			}
		}
		return iface{}, false
	}
	H["errors.As"] = func(fr *frame, a []value) value {
		err, _ := a[0].(iface)
		tgtI := a[1].(iface)
		tgtT := tgtI.t.Underlying().(*types.Pointer).Elem()
		for err.t != nil {
			if it, ok := tgtT.Underlying().(*types.Interface); ok && types.Implements(err.t, it) {
				*tgtI.v.(*value) = err
				return true
			}
			if types.Identical(err.t, tgtT) {
				*tgtI.v.(*value) = err.v
				return true
			}
			in, ok := unwrap1(err)
			if !ok {
				break
			}
			err = in
		}
		return false
	}
	H["errors.Is"] = func(fr *frame, a []value) value {
		err, _ := a[0].(iface)
		tgt, _ := a[1].(iface)
		for err.t != nil {
			if tgt.t != nil && types.Identical(err.t, tgt.t) && equals(err.t, err.v, tgt.v) {
				return true
			}
			in, ok := unwrap1(err)
			if !ok {
				break
			}
			err = in
		}
		return tgt.t == nil && err.t == nil
	}
	H["errors.Unwrap"] = func(fr *frame, a []value) value {
		err, _ := a[0].(iface)
		if err.t == nil {
			return iface{}
		}
		in, ok := unwrap1(err)
		if !ok {
			return iface{}
		}
		return in
	}
	H["reflect.DeepEqual"] = func(fr *frame, a []value) value { return deepEqValue(a[0], a[1]) }
	unput := func(fr *frame, kind string, a []value) value {
		src, ok := registry[string(goBytes(a[0]))]
		if !ok {
			return hostErr(fr, kind+": bad handle")
		}
		dst := a[1].(iface).v.(*value)
		s := deepCopy(src).(iface).v
		if p, ok := s.(*value); ok {
			s = *p
		}
		*dst = s
		return iface{}
	}
	H["encoding/json.Marshal"] = func(fr *frame, a []value) value { return tuple{put("J", a[0]), iface{}} }
	H["encoding/json.MarshalIndent"] = func(fr *frame, a []value) value { return tuple{put("J", a[0]), iface{}} }
	H["encoding/json.Unmarshal"] = func(fr *frame, a []value) value {
		if !strings.HasPrefix(string(goBytes(a[0])), "J") {
			return hostErr(fr, "json: invalid character")
		}
		return unput(fr, "json", a)
	}
	// gob (default node and legacy root format): the repository's two-line
	// wrappers around encoding/gob are the opaque codec as well
	H["encoding/gob.Register"] = func(fr *frame, a []value) value { return nil }
	H["github.com/jrhy/s3db/kv.marshalGob"] = func(fr *frame, a []value) value { return tuple{put("G", a[0]), iface{}} }
	H["github.com/jrhy/s3db/kv.unmarshalGob"] = func(fr *frame, a []value) value {
		if !strings.HasPrefix(string(goBytes(a[0])), "G") {
			return hostErr(fr, "gob: not a gob stream")
		}
		return unput(fr, "gob", a)
	}
	H["google.golang.org/protobuf/proto.Marshal"] = func(fr *frame, a []value) value {
		if !protoStringsValid(a[0]) {
			return tuple{[]value(nil), hostErr(fr, "proto: string field contains invalid UTF-8")}
		}
		return tuple{put("P", a[0]), iface{}}
	}
	H["google.golang.org/protobuf/proto.Unmarshal"] = func(fr *frame, a []value) value { return unput(fr, "proto", a) }
	H["google.golang.org/protobuf/proto.Equal"] = func(fr *frame, a []value) value { return deepEqValue(a[0], a[1]) }
	H["google.golang.org/protobuf/proto.Clone"] = func(fr *frame, a []value) value { return deepCopy(a[0]) }
	// content hash: a function of the (canonical) handle bytes
	H["github.com/minio/blake2b-simd.Sum256"] = func(fr *frame, a []value) value {
		h := sha256.Sum256(goBytes(a[0]))
		out := make(array, 32)
		for i := range out {
			out[i] = h[i]
		}
		return out
	}

	H["math/big.NewInt"] = func(fr *frame, a []value) value {
		var cell value = structure{}
		p := &cell
		x, ok := a[0].(int64)
		if !ok {
			// the creation-time part of a version name for a symbolic creation
			// time: a placeholder; the content hash keeps names distinct
			bigInts[p] = nil
			return p
		}
		bigInts[p] = big.NewInt(x)
		return p
	}
	H["(*math/big.Int).SetBytes"] = func(fr *frame, a []value) value {
		p := a[0].(*value)
		bigInts[p] = new(big.Int).SetBytes(goBytes(a[1]))
		return p
	}
	H["(*math/big.Int).Text"] = func(fr *frame, a []value) value {
		b := bigInts[a[0].(*value)]
		if b == nil {
			return "symtim"
		}
		return b.Text(a[1].(int))
	}
	H["hash/crc64.MakeTable"] = func(fr *frame, a []value) value { return (*value)(nil) }
	// crc64 of key bytes (mast's layer hash for TEXT/BLOB/REAL keys): an
	// uninterpreted function of the content, injective naming as above.
	H["hash/crc64.Checksum"] = func(fr *frame, a []value) value {
		b := a[0].([]value)
		for _, x := range b {
			if isSym(x) {
				// UF over the byte string: crc_<len>(b0..bn)
				fn := fmt.Sprintf("uf_crc64_%d", len(b))
				args := ""
				sig := "("
				for _, y := range b {
					args += " " + lift(y).term
					sig += "(_ BitVec 8) "
				}
				X.declFun(fn, sig+") (_ BitVec 64)")
				return sym{types.Uint64, "(" + fn + args + ")"}
			}
		}
		h := sha256.Sum256(goBytes(a[0]))
		var u uint64
		for i := 0; i < 8; i++ {
			u = u<<8 | uint64(h[i])
		}
		return u
	}
	H["math.Float64bits"] = func(fr *frame, a []value) value {
		if s, ok := a[0].(sym); ok {
			const pre = "((_ to_fp 11 53) "
			if strings.HasPrefix(s.term, pre) && strings.HasSuffix(s.term, ")") && !strings.Contains(s.term[len(pre):], " ") {
				return sym{types.Uint64, s.term[len(pre) : len(s.term)-1]}
			}
			return sym{types.Uint64, "(fp.to_ieee_bv " + s.term + ")"}
		}
		return math.Float64bits(a[0].(float64))
	}
	H["math.Float64frombits"] = func(fr *frame, a []value) value {
		if s, ok := a[0].(sym); ok {
			return sym{types.Float64, "((_ to_fp 11 53) " + s.term + ")"}
		}
		return math.Float64frombits(a[0].(uint64))
	}
	H["regexp.MustCompile"] = func(fr *frame, a []value) value { return (*value)(nil) }
	H["context.WithValue"] = func(fr *frame, a []value) value {
		t := fr.i.prog.ImportedPackage("context").Type("valueCtx").Object().Type()
		var cell value = structure{a[0], a[1], a[2]}
		return iface{types.NewPointer(t), &cell}
	}
	// a deadline is carried as a context value under the key "verif.deadline"
	// so that harnesses can see which deadline a statement ran under
	H["context.WithDeadline"] = func(fr *frame, a []value) value {
		t := fr.i.prog.ImportedPackage("context").Type("valueCtx").Object().Type()
		var cell value = structure{a[0], iface{types.Typ[types.String], "verif.deadline"}, iface{fr.i.prog.ImportedPackage("time").Type("Time").Object().Type(), a[1]}}
		return tuple{iface{types.NewPointer(t), &cell}, (*ssa.Function)(nil)}
	}
	H["context.WithCancel"] = func(fr *frame, a []value) value { return tuple{a[0], (*ssa.Function)(nil)} }
	H["context.WithTimeout"] = func(fr *frame, a []value) value { return tuple{a[0], (*ssa.Function)(nil)} }
	H["strconv.FormatInt"] = func(fr *frame, a []value) value {
		x, ok := a[0].(int64)
		if !ok {
			panic(engineLimit{"strconv.FormatInt symbolic"})
		}
		return strconv.FormatInt(x, a[1].(int))
	}
	H["strconv.ParseInt"] = func(fr *frame, a []value) value {
		s, ok := a[0].(string)
		if !ok {
			// a symbolic string: the outcome is nondeterministic (a fresh
			// integer, or a syntax error); digits are not interpreted
			if X.decide(2, func(int) string { return "" }) == 0 {
				ufCounter++
				n := fmt.Sprintf("v_parsedint%d", ufCounter)
				X.decl(n, "(_ BitVec 64)")
				return tuple{sym{types.Int64, n}, iface{}}
			}
			return tuple{int64(0), hostErr(fr, "strconv.ParseInt: invalid syntax")}
		}
		v, err := strconv.ParseInt(s, a[1].(int), a[2].(int))
		if err != nil {
			return tuple{v, hostErr(fr, err.Error())}
		}
		return tuple{v, iface{}}
	}
	H["strings.Split"] = func(fr *frame, a []value) value {
		s, ok := a[0].(string)
		if !ok {
			panic(engineLimit{"strings.Split symbolic"})
		}
		var out []value
		for _, p := range strings.Split(s, a[1].(string)) {
			out = append(out, p)
		}
		return out
	}
	H["strings.HasPrefix"] = func(fr *frame, a []value) value {
		if s, ok := a[0].(string); ok {
			return strings.HasPrefix(s, a[1].(string))
		}
		sb, _ := strBytes(a[0])
		pb, _ := strBytes(a[1])
		if len(pb) > len(sb) {
			return false
		}
		return boolVal(bytesEqTerm(sb[:len(pb)], pb))
	}
	// strings.SplitN(s, sep, 2) with a one-byte separator on a symbolic string:
	// the position of the first separator is decided by branching
	H["strings.SplitN"] = func(fr *frame, a []value) value {
		sep := a[1].(string)
		n := a[2].(int)
		if s, ok := a[0].(string); ok {
			var out []value
			for _, p := range strings.SplitN(s, sep, n) {
				out = append(out, p)
			}
			return out
		}
		if n != 2 || len(sep) != 1 {
			panic(engineLimit{"strings.SplitN model: n=2 and a one-byte separator only"})
		}
		b, _ := strBytes(a[0])
		for i := range b {
			var is sym
			if c, ok := b[i].(uint8); ok {
				if c != sep[0] {
					continue
				}
				is = sym{types.Bool, "true"}
			} else {
				is = sym{types.Bool, fmt.Sprintf("(= %s (_ bv%d 8))", b[i].(sym).term, sep[0])}
			}
			if is.term == "true" || X.branch(is) {
				return []value{mkStr(b[:i]), mkStr(b[i+1:])}
			}
		}
		return []value{mkStr(b)}
	}
	H["strings.HasSuffix"] = func(fr *frame, a []value) value {
		return strings.HasSuffix(a[0].(string), a[1].(string))
	}
	H["strings.TrimPrefix"] = func(fr *frame, a []value) value {
		return strings.TrimPrefix(a[0].(string), a[1].(string))
	}
	H["strings.TrimSuffix"] = func(fr *frame, a []value) value {
		return strings.TrimSuffix(a[0].(string), a[1].(string))
	}
	H["strings.Join"] = func(fr *frame, a []value) value {
		var p []string
		for _, x := range a[0].([]value) {
			p = append(p, x.(string))
		}
		return strings.Join(p, a[1].(string))
	}
	H["sort.Strings"] = func(fr *frame, a []value) value {
		x := a[0].([]value)
		sort.Slice(x, func(i, j int) bool { return x[i].(string) < x[j].(string) })
		return nil
	}
	H["bytes.Compare"] = func(fr *frame, a []value) value {
		x, y := a[0].([]value), a[1].([]value)
		lt := bytesLtTerm(x, y, false)
		gt := bytesLtTerm(y, x, false)
		if lt.term == "true" {
			return -1
		}
		if gt.term == "true" {
			return 1
		}
		if lt.term == "false" && gt.term == "false" {
			return 0
		}
		return sym{types.Int, "(ite " + lt.term + " (_ bv18446744073709551615 64) (ite " + gt.term + " (_ bv1 64) (_ bv0 64)))"}
	}
	H["bytes.Equal"] = func(fr *frame, a []value) value {
		return boolVal(bytesEqTerm(a[0].([]value), a[1].([]value)))
	}
	// strconv.FormatFloat(x,'b',-1,64) is injective on bit patterns; on a
	// symbolic float it stays opaque: a tagged symbolic string.
	H["strconv.FormatFloat"] = func(fr *frame, a []value) value {
		if s, ok := a[0].(sym); ok {
			bv := "(fp.to_ieee_bv " + s.term + ")"
			out := []value{uint8('F')}
			for i := 7; i >= 0; i-- {
				out = append(out, sym{types.Uint8, fmt.Sprintf("((_ extract %d %d) %s)", i*8+7, i*8, bv)})
			}
			return &symstr{out}
		}
		return strconv.FormatFloat(a[0].(float64), a[1].(uint8), a[2].(int), a[3].(int))
	}
}

// ---- time model (DESIGN §4.1) ----
const zeroUnixNano = int64(-6795364578871345152)

func symOrBin(op token.Token, x, y value) value {
	if isSym(x) || isSym(y) {
		return symBinop(op, x, y)
	}
	switch op {
	case token.ADD:
		return x.(int64) + y.(int64)
	case token.SUB:
		return x.(int64) - y.(int64)
	}
	panic("symOrBin")
}
func cmpU(op string, x, y value) value {
	if isSym(x) || isSym(y) {
		a, b := lift(x), lift(y)
		return sym{types.Bool, "(" + op + " " + a.term + " " + b.term + ")"}
	}
	ux, uy := uint64(x.(int64)), uint64(y.(int64))
	switch op {
	case "bvult":
		return ux < uy
	case "bvugt":
		return ux > uy
	case "=":
		return ux == uy
	}
	panic(op)
}
func mkTime(ext value) value { return structure{uint64(0), ext, (*value)(nil)} }
func ext(t value) value      { return t.(structure)[1] }

func init() {
	H := Hooks
	H["time.Unix"] = func(fr *frame, a []value) value {
		sec, ok := a[0].(int64)
		if !ok {
			panic(engineLimit{"time.Unix model: sec must be concrete"})
		}
		return mkTime(symOrBin(token.SUB, symOrBin(token.ADD, a[1], sec*1000000000), zeroUnixNano))
	}
	H["(time.Time).Add"] = func(fr *frame, a []value) value { return mkTime(symOrBin(token.ADD, ext(a[0]), a[1])) }
	H["(time.Time).Sub"] = func(fr *frame, a []value) value { return symOrBin(token.SUB, ext(a[0]), ext(a[1])) }
	H["(time.Time).Before"] = func(fr *frame, a []value) value { return cmpU("bvult", ext(a[0]), ext(a[1])) }
	H["(time.Time).After"] = func(fr *frame, a []value) value { return cmpU("bvugt", ext(a[0]), ext(a[1])) }
	H["(time.Time).Equal"] = func(fr *frame, a []value) value { return cmpU("=", ext(a[0]), ext(a[1])) }
	H["(time.Time).UnixNano"] = func(fr *frame, a []value) value { return symOrBin(token.ADD, ext(a[0]), zeroUnixNano) }
	H["(time.Time).IsZero"] = func(fr *frame, a []value) value { return cmpU("=", ext(a[0]), int64(0)) }
	H["(time.Time).Unix"] = func(fr *frame, a []value) value {
		e, ok := ext(a[0]).(int64)
		if !ok {
			// seconds of a symbolic instant: opaque but functional (UF of the instant)
			X.declFun("uf_unixsec", "((_ BitVec 64)) (_ BitVec 64)")
			return sym{types.Int64, "(uf_unixsec " + lift(ext(a[0])).term + ")"}
		}
		n := e + zeroUnixNano
		s := n / 1000000000
		if n%1000000000 < 0 {
			s--
		}
		return s
	}
	H["(time.Time).UTC"] = func(fr *frame, a []value) value { return a[0] }
	H["(time.Time).Format"] = func(fr *frame, a []value) value {
		e, ok := ext(a[0]).(int64)
		if !ok {
			if txt, ok := parsedTimes[ext(a[0]).(sym).term]; ok {
				return txt
			}
			return "<time>"
		}
		return fmt.Sprintf("T%d", e+zeroUnixNano)
	}
	H["(time.Time).String"] = H["(time.Time).Format"]
	// time.Now: a fresh symbolic instant, non-decreasing, inside the time range.
	H["time.Now"] = func(fr *frame, a []value) value {
		nowCount++
		n := fmt.Sprintf("v_now%d", nowCount)
		X.decl(n, "(_ BitVec 64)")
		// unix nanos in (0, 2^62)
		X.assertPC("(and (bvsgt " + n + " (_ bv0 64)) (bvslt " + n + " (_ bv4611686018427387904 64)))")
		if nowCount > 1 {
			X.assertPC(fmt.Sprintf("(bvsge %s v_now%d)", n, nowCount-1))
		}
		return mkTime(symOrBin(token.SUB, sym{types.Int64, n}, zeroUnixNano))
	}
	H["time.Since"] = func(fr *frame, a []value) value { return int64(0) }
	// time.Parse("@name") is a fresh symbolic instant inside the time range
	// (the same name gives the same instant); any other text is a parse error.
	// Format is its inverse on those instants.
	H["time.Parse"] = func(fr *frame, a []value) value {
		txt, ok := a[1].(string)
		if !ok || !strings.HasPrefix(txt, "@") || len(txt) < 2 {
			return tuple{mkTime(int64(0)), hostErr(fr, "parsing time: cannot parse")}
		}
		n := "v_parsed_" + txt[1:]
		X.decl(n, "(_ BitVec 64)")
		X.assertPC("(and (bvsgt " + n + " (_ bv0 64)) (bvslt " + n + " (_ bv4611686018427387904 64)))")
		t := symOrBin(token.SUB, sym{types.Int64, n}, zeroUnixNano)
		parsedTimes[t.(sym).term] = txt
		return tuple{mkTime(t), iface{}}
	}
	const dp = "google.golang.org/protobuf/types/known/durationpb"
	H[dp+".New"] = func(fr *frame, a []value) value {
		T := fr.i.prog.ImportedPackage(dp).Type("Duration").Object().Type()
		cell := zero(T)
		cell.(structure)[durSecondsField(fr)] = a[0]
		return &cell
	}
	H["(*"+dp+".Duration).AsDuration"] = func(fr *frame, a []value) value {
		p := a[0].(*value)
		if p == nil {
			return int64(0)
		}
		return (*p).(structure)[durSecondsField(fr)]
	}
}

var durField = -1
var parsedTimes = map[string]string{}

// shuffleIdentity: rand.Shuffle leaves the order alone (used by harness
// oracles whose result must not depend on it; the code under test's own
// shuffles stay exhaustive).
var shuffleIdentity bool

func init() {
	pathResets = append(pathResets, func() { shuffleIdentity = false })
	Intrinsics["symShuffleMode"] = func(fr *frame, a []value) value {
		shuffleIdentity = a[0].(int) == 1
		return nil
	}
}

// the model keeps the whole duration (int64 ns) in the Seconds field
func durSecondsField(fr *frame) int {
	if durField >= 0 {
		return durField
	}
	const dp = "google.golang.org/protobuf/types/known/durationpb"
	st := fr.i.prog.ImportedPackage(dp).Type("Duration").Object().Type().Underlying().(*types.Struct)
	for i := 0; i < st.NumFields(); i++ {
		if st.Field(i).Name() == "Seconds" {
			durField = i
			return i
		}
	}
	panic("durationpb.Duration has no Seconds field")
}

// packages whose values live in model representation: an un-intercepted call
// into them is inconclusive (intercept-coverage guard, DESIGN §2.1).
var modelledPkgs = map[string]bool{
	"time": true,
	"google.golang.org/protobuf/types/known/durationpb": true,
	"google.golang.org/protobuf/proto":                  true,
	"encoding/json":                                     true,
	"encoding/gob":                                      true,
	"math/big":                                          true,
	"math/rand":                                         true,
	"regexp":                                            true,
	"sync":                                              true,
	"sync/atomic":                                       true,
	"hash/crc64":                                        true,
	"github.com/minio/blake2b-simd":                     true,
	"reflect":                                           true,
	"unsafe":                                            true,
	"os":                                                true,
	"net/http":                                          true,
	"github.com/aws/aws-sdk-go/aws/session":             true,
	"github.com/aws/aws-sdk-go/aws/request":             true,
	"github.com/aws/aws-sdk-go/aws/client":              true,
	"github.com/hashicorp/golang-lru":                   true,
	"github.com/segmentio/ksuid":                        true,
	"golang.org/x/crypto/nacl/secretbox":                true,
	"golang.org/x/crypto/salsa20":                       true,
	"golang.org/x/crypto/salsa20/salsa":                 true,
	"golang.org/x/crypto/poly1305":                      true,
	"golang.org/x/crypto/argon2":                        true,
	"golang.org/x/crypto/blake2b":                       true,
	"crypto/rand":                                       true,
	"crypto/subtle":                                     true,
	"go.riyazali.net/sqlite":                            true,
}

// functions of modelled packages that are plain enough to interpret as they are
var modelledAllow = map[string]bool{
	"(go.riyazali.net/sqlite.ErrorCode).Error":  true,
	"(go.riyazali.net/sqlite.ErrorCode).String": true,
	"(time.Duration).Nanoseconds": true,
	"(*sync.Mutex).TryLock":       false,
}

func base64EncodeConcrete(b []value) value {
	return base64.RawURLEncoding.EncodeToString(goBytes(b))
}

// ksuid: NewRandomWithTime gives distinct identifiers; the n-th one made on a
// path is the 20-byte array holding n, and String() prints it as "ksuid-n".
var ksuidCounter int

func init() {
	pathResets = append(pathResets, func() { ksuidCounter = 0 })
	Hooks["github.com/segmentio/ksuid.NewRandomWithTime"] = func(fr *frame, a []value) value {
		ksuidCounter++
		arr := make(array, 20)
		for i := range arr {
			arr[i] = uint8(0)
		}
		arr[19] = uint8(ksuidCounter)
		return tuple{arr, iface{}}
	}
	Hooks["(github.com/segmentio/ksuid.KSUID).String"] = func(fr *frame, a []value) value {
		arr := a[0].(array)
		return fmt.Sprintf("ksuid-%d", arr[19].(uint8))
	}
}
