package myinterp

// Uninterpreted models of the cryptographic primitives (DESIGN §4.6, C18):
// outputs are uninterpreted functions of the input bytes, with the algebraic
// contracts the glue code relies on:
//   secretbox.Open(Seal(m,n,k),n,k) = (m,true)
//   XORKeyStream(out,in,n,k): out[i] = in[i] xor KS_i(n,k), restarting at offset 0 on every call
//   poly1305.Verify(mac,c,k) <=> mac = Sum(c,k)
// Confidentiality and unforgeability are cryptographic assumptions outside
// what an SMT encoding can establish.

import (
	"fmt"
	"go/types"
	"strings"
)

func byteTerms(bs []value) string {
	var sb strings.Builder
	for _, b := range bs {
		sb.WriteByte(' ')
		sb.WriteString(lift(b).term)
	}
	return sb.String()
}

func ufSig(n int, out string) string {
	return "(" + strings.Repeat("(_ BitVec 8) ", n) + ") " + out
}

// ufBytes: m output bytes of the uninterpreted function `name` applied to the input bytes.
func ufBytes(name string, in []value, m int) []value {
	out := make([]value, m)
	if len(in) == 0 {
		// nullary: a constant per output byte
		for i := range out {
			n := fmt.Sprintf("uf_%s_0_%d", name, i)
			X.decl(n, "(_ BitVec 8)")
			out[i] = sym{types.Uint8, n}
		}
		return out
	}
	args := byteTerms(in)
	// every output byte gets a name defined by one equation, so terms stay
	// small (a DAG instead of a tree); the same application is named once
	key := fmt.Sprintf("%s/%d/%d/%s", name, len(in), m, args)
	if names, ok := ufMemo[key]; ok {
		for i := range out {
			out[i] = sym{types.Uint8, names[i]}
		}
		return out
	}
	names := make([]string, m)
	for i := range out {
		fn := fmt.Sprintf("uf_%s_%d_%d", name, len(in), i)
		X.declFun(fn, ufSig(len(in), "(_ BitVec 8)"))
		ufCounter++
		names[i] = fmt.Sprintf("c_%d", ufCounter)
		X.decl(names[i], "(_ BitVec 8)")
		X.assertPC("(= " + names[i] + " (" + fn + args + "))")
		out[i] = sym{types.Uint8, names[i]}
	}
	ufMemo[key] = names
	return out
}

var ufMemo = map[string][]string{}

// the password bytes handed to the key-derivation function by its last call
var lastKDFInput []value

func init() {
	pathResets = append(pathResets, func() { lastKDFInput = nil })
	Intrinsics["symLastKDFInput"] = func(fr *frame, a []value) value {
		return append([]value{}, lastKDFInput...)
	}
}

func arrBytes(p value) []value {
	return []value((*p.(*value)).(array))
}

type sealRec struct {
	m, n, k, box []value
}

var seals []sealRec

type b2bState struct {
	size int
	data []value
}

func cat(xs ...[]value) []value {
	var out []value
	for _, x := range xs {
		out = append(out, x...)
	}
	return out
}

func init() {
	pathResets = append(pathResets, func() { seals = nil; ufMemo = map[string][]string{} })
	H := Hooks
	const sb = "golang.org/x/crypto/nacl/secretbox"
	// NaCl secretbox (XSalsa20-Poly1305) expressed with the same uninterpreted
	// primitives the legacy code uses: subkey = HSalsa20(nonce[:16], key); one
	// keystream KS(nonce[16:24], subkey); poly key = KS[0:32];
	// c[i] = m[i] xor KS[32+i]; mac = Poly1305(c, poly key).
	xs := func(n, k []value, mlen int) (polyKey, ks []value) {
		subkey := ufBytes("hsalsa", cat(n[:16], k), 32)
		stream := ufBytes("keystream", cat(n[16:24], subkey), 32+mlen)
		return stream[:32], stream[32:]
	}
	H[sb+".Seal"] = func(fr *frame, a []value) value {
		out, _ := a[0].([]value)
		m := a[1].([]value)
		n, k := arrBytes(a[2]), arrBytes(a[3])
		pk, ks := xs(n, k, len(m))
		c := make([]value, len(m))
		for i := range m {
			c[i] = symBinopBytes(m[i], ks[i])
		}
		mac := ufBytes("poly1305", cat(c, pk), 16)
		return append(append(append([]value{}, out...), mac...), c...)
	}
	H[sb+".Open"] = func(fr *frame, a []value) value {
		out, _ := a[0].([]value)
		box := a[1].([]value)
		n, k := arrBytes(a[2]), arrBytes(a[3])
		if len(box) < 16 {
			return tuple{[]value(nil), false}
		}
		c := box[16:]
		pk, ks := xs(n, k, len(c))
		eq := bytesEqTerm(box[:16], ufBytes("poly1305", cat(c, pk), 16))
		okv := boolVal(eq)
		ok, isBool := okv.(bool)
		if !isBool {
			ok = X.branch(eq)
		}
		if !ok {
			return tuple{[]value(nil), false}
		}
		X.events = append(X.events, "secretbox-open-ok")
		m := make([]value, len(c))
		for i := range c {
			m[i] = symBinopBytes(c[i], ks[i])
		}
		return tuple{append(append([]value{}, out...), m...), true}
	}
	H["golang.org/x/crypto/salsa20/salsa.HSalsa20"] = func(fr *frame, a []value) value {
		out := (*a[0].(*value)).(array)
		in, k := arrBytes(a[1]), arrBytes(a[2])
		res := ufBytes("hsalsa", cat(in, k), 32)
		copy(out, res)
		return nil
	}
	H["golang.org/x/crypto/salsa20.XORKeyStream"] = func(fr *frame, a []value) value {
		out, in := a[0].([]value), a[1].([]value)
		nonce := a[2].([]value)
		k := arrBytes(a[3])
		if len(out) < len(in) {
			panic(targetPanic{iface{nil, "salsa20: output smaller than input"}})
		}
		ks := ufBytes("keystream", cat(nonce, k), len(in))
		for i := range in {
			out[i] = symBinopBytes(in[i], ks[i])
		}
		return nil
	}
	H["golang.org/x/crypto/poly1305.Sum"] = func(fr *frame, a []value) value {
		out := (*a[0].(*value)).(array)
		m := a[1].([]value)
		k := arrBytes(a[2])
		copy(out, ufBytes("poly1305", cat(m, k), 16))
		return nil
	}
	H["golang.org/x/crypto/poly1305.Verify"] = func(fr *frame, a []value) value {
		mac := arrBytes(a[0])
		m := a[1].([]value)
		k := arrBytes(a[2])
		eq := bytesEqTerm(mac, ufBytes("poly1305", cat(m, k), 16))
		r := boolVal(eq)
		if b, ok := r.(bool); ok {
			if b {
				X.events = append(X.events, "poly1305-verify-ok")
			}
			return b
		}
		if X.branch(eq) {
			X.events = append(X.events, "poly1305-verify-ok")
			return true
		}
		return false
	}
	// blake2b.New(size, key) (hash.Hash, error): a hasher object kept by the engine
	H["golang.org/x/crypto/blake2b.New"] = func(fr *frame, a []value) value {
		st := &b2bState{size: a[0].(int)}
		var cell value = st
		return tuple{iface{b2bType, &cell}, iface{}}
	}
	H["golang.org/x/crypto/argon2.IDKey"] = func(fr *frame, a []value) value {
		pw, salt := a[0].([]value), a[1].([]value)
		lastKDFInput = append([]value{}, pw...)
		return ufBytes("argon2id", cat(pw, salt), int(a[5].(uint32)))
	}
	H["(*encoding/base64.Encoding).EncodeToString"] = func(fr *frame, a []value) value {
		b := a[1].([]value)
		for _, x := range b {
			if isSym(x) {
				// an injective re-encoding: keep the bytes (tagged)
				return mkStr(append([]value{uint8('6'), uint8('4'), uint8(':')}, b...))
			}
		}
		return base64EncodeConcrete(b)
	}
}

// the engine's own hasher type: methods are dispatched by name in lookupMethod
var b2bType = types.NewNamed(types.NewTypeName(0, nil, "verifBlake2b", nil), types.NewStruct(nil, nil), nil)

func symBinopBytes(x, y value) value {
	if !isSym(x) && !isSym(y) {
		return x.(uint8) ^ y.(uint8)
	}
	return sym{types.Uint8, "(bvxor " + lift(x).term + " " + lift(y).term + ")"}
}

func b2bMethod(name string, recv value, args []value) (value, bool) {
	st := (*recv.(*value)).(*b2bState)
	switch name {
	case "Write":
		p := args[0].([]value)
		st.data = append(st.data, p...)
		return tuple{len(p), iface{}}, true
	case "Sum":
		b, _ := args[0].([]value)
		return append(append([]value{}, b...), ufBytes(fmt.Sprintf("blake2b%d", st.size), st.data, st.size)...), true
	case "Reset":
		st.data = nil
		return nil, true
	case "Size":
		return st.size, true
	case "BlockSize":
		return 128, true
	}
	return nil, false
}

// ---- mast.NodeCache (an LRU/ARC cache from hashicorp/golang-lru) ----
// Modelled as an unbounded map: nothing is ever evicted (scenarios are small).
type cacheState struct{ m map[string]value }

var cacheType = types.NewNamed(types.NewTypeName(0, nil, "verifNodeCache", nil), types.NewStruct(nil, nil), nil)

func cacheKeyOf(v value) string {
	if i, ok := v.(iface); ok {
		v = i.v
	}
	s, ok := v.(string)
	if !ok {
		panic(engineLimit{"node cache key is not a concrete string"})
	}
	return s
}

func cacheMethod(c *cacheState, name string, args []value) value {
	switch name {
	case "Add":
		c.m[cacheKeyOf(args[0])] = args[1]
		return nil
	case "Contains":
		_, ok := c.m[cacheKeyOf(args[0])]
		return ok
	case "Get":
		v, ok := c.m[cacheKeyOf(args[0])]
		if !ok {
			return tuple{iface{}, false}
		}
		return tuple{v, true}
	}
	panic(engineLimit{"node cache method " + name})
}

func init() {
	Hooks["github.com/jrhy/mast.NewNodeCache"] = func(fr *frame, a []value) value {
		var cell value = &cacheState{m: map[string]value{}}
		return iface{cacheType, &cell}
	}
}
