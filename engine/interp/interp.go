// Copyright 2013 The Go Authors. All rights reserved.
// Use of this source code is governed by a BSD-style
// license that can be found in the LICENSE file.

// Package ssa/interp defines an interpreter for the SSA
// representation of Go programs.
//
// This interpreter is provided as an adjunct for testing the SSA
// construction algorithm.  Its purpose is to provide a minimal
// metacircular implementation of the dynamic semantics of each SSA
// instruction.  It is not, and will never be, a production-quality Go
// interpreter.
//
// The following is a partial list of Go features that are currently
// unsupported or incomplete in the interpreter.
//
// * Unsafe operations, including all uses of unsafe.Pointer, are
// impossible to support given the "boxed" value representation we
// have chosen.
//
// * The reflect package is only partially implemented.
//
// * The "testing" package is no longer supported because it
// depends on low-level details that change too often.
//
// * "sync/atomic" operations are not atomic due to the "boxed" value
// representation: it is not possible to read, modify and write an
// interface value atomically. As a consequence, Mutexes are currently
// broken.
//
// * recover is only partially implemented.  Also, the interpreter
// makes no attempt to distinguish target panics from interpreter
// crashes.
//
// * the sizes of the int, uint and uintptr types in the target
// program are assumed to be the same as those of the interpreter
// itself.
//
// * all values occupy space, even those of types defined by the spec
// to have zero size, e.g. struct{}.  This can cause asymptotic
// performance degradation.
//
// * os.Exit is implemented using panic, causing deferred functions to
// run.
package myinterp

import (
	"strings"
	"sync"
	"fmt"
	"go/token"
	"go/types"
	"log"
	"os"
	"reflect"
	"runtime"
	"slices"
	_ "sync/atomic"
	_ "unsafe"

	"golang.org/x/tools/go/ssa"
	
)

var EntryName string
var Symbolic bool
var Stack []string
var stackMu sync.Mutex
var Panicked bool
var InitAllow func(string) bool
var Hooks = map[string]func(fr *frame, args []value) value{}
var HookHits = map[string]int{}

// PreHooks run before the real body of a function (path-event detectors).
var PreHooks = map[string]func(fr *frame, args []value){}

func mustDeref(t types.Type) types.Type {
	if p, ok := t.Underlying().(*types.Pointer); ok {
		return p.Elem()
	}
	panic("not a pointer: " + t.String())
}

type continuation int

const (
	kNext continuation = iota
	kReturn
	kJump
)

// Mode is a bitmask of options affecting the interpreter.
type Mode uint

const (
	DisableRecover Mode = 1 << iota // Disable recover() in target programs; show interpreter crash instead.
	EnableTracing                   // Print a trace of all instructions as they are interpreted.
)

type methodSet map[string]*ssa.Function

// State shared between all interpreted goroutines.
type interpreter struct {
	osArgs             []value                // the value of os.Args
	prog               *ssa.Program           // the SSA program
	globals            map[*ssa.Global]*value // addresses of global variables (immutable)
	mode               Mode                   // interpreter options
	reflectPackage     *ssa.Package           // the fake reflect package
	errorMethods       methodSet              // the method set of reflect.error, which implements the error interface.
	rtypeMethods       methodSet              // the method set of rtype, which implements the reflect.Type interface.
	runtimeErrorString types.Type             // the runtime.errorString type (iff "runtime" is present)
	sizes              types.Sizes            // the effective type-sizing function
	goroutines         int32                  // atomically updated
}

type deferred struct {
	fn    value
	args  []value
	instr *ssa.Defer
	tail  *deferred
}

type frame struct {
	i                *interpreter
	caller           *frame
	fn               *ssa.Function
	block, prevBlock *ssa.BasicBlock
	env              map[ssa.Value]value // dynamic values of SSA variables
	locals           []value
	defers           *deferred
	result           value
	panicking        bool
	panic            any
	phitemps         []value // temporaries for parallel phi assignment
}

func (fr *frame) get(key ssa.Value) value {
	switch key := key.(type) {
	case nil:
		// Hack; simplifies handling of optional attributes
		// such as ssa.Slice.{Low,High}.
		return nil
	case *ssa.Function, *ssa.Builtin:
		return key
	case *ssa.Const:
		return constValue(key)
	case *ssa.Global:
		if GuardedGlobals != nil {
			if mu, ok := GuardedGlobals[key.String()]; ok {
				guardedAccess(fr, key, mu)
			}
		}
		if needsInit[key] {
			panic(engineLimit{"uninitialised global of a package whose init is skipped: " + key.String()})
		}
		if r, ok := fr.i.globals[key]; ok {
			return r
		}
	}
	if r, ok := fr.env[key]; ok {
		return r
	}
	panic(fmt.Sprintf("get: no value for %T: %v", key, key.Name()))
}

// runDefer runs a deferred call d.
// It always returns normally, but may set or clear fr.panic.
func (fr *frame) runDefer(d *deferred) {
	if fr.i.mode&EnableTracing != 0 {
		fmt.Fprintf(os.Stderr, "%s: invoking deferred function call\n",
			fr.i.prog.Fset.Position(d.instr.Pos()))
	}
	var ok bool
	defer func() {
		if !ok {
			// Deferred call created a new state of panic.
			fr.panicking = true
			fr.panic = recover()
		}
	}()
	call(fr.i, fr, d.instr.Pos(), d.fn, d.args)
	ok = true
}

// runDefers executes fr's deferred function calls in LIFO order.
//
// On entry, fr.panicking indicates a state of panic; if
// true, fr.panic contains the panic value.
//
// On completion, if a deferred call started a panic, or if no
// deferred call recovered from a previous state of panic, then
// runDefers itself panics after the last deferred call has run.
//
// If there was no initial state of panic, or it was recovered from,
// runDefers returns normally.
func (fr *frame) runDefers() {
	for d := fr.defers; d != nil; d = d.tail {
		fr.runDefer(d)
	}
	fr.defers = nil
	if fr.panicking {
		panic(fr.panic) // new panic, or still panicking
	}
}

// lookupMethod returns the method set for type typ, which may be one
// of the interpreter's fake types.
func lookupMethod(i *interpreter, typ types.Type, meth *types.Func) *ssa.Function {
	switch typ {
	case rtypeType:
		return i.rtypeMethods[meth.Id()]
	case errorType:
		return i.errorMethods[meth.Id()]
	}
	return i.prog.LookupMethod(typ, meth.Pkg(), meth.Name())
}

// visitInstr interprets a single ssa.Instruction within the activation
// record frame.  It returns a continuation value indicating where to
// read the next instruction from.
func visitInstr(fr *frame, instr ssa.Instruction) continuation {
	switch instr := instr.(type) {
	case *ssa.DebugRef:
		// no-op

	case *ssa.UnOp:
		fr.env[instr] = unop(instr, fr.get(instr.X))

	case *ssa.BinOp:
		fr.env[instr] = binop(instr.Op, instr.X.Type(), fr.get(instr.X), fr.get(instr.Y))

	case *ssa.Call:
		fn, args := prepareCall(fr, &instr.Call)
		fr.env[instr] = call(fr.i, fr, instr.Pos(), fn, args)

	case *ssa.ChangeInterface:
		fr.env[instr] = fr.get(instr.X)

	case *ssa.ChangeType:
		fr.env[instr] = fr.get(instr.X) // (can't fail)

	case *ssa.Convert:
		fr.env[instr] = conv(instr.Type(), instr.X.Type(), fr.get(instr.X))

	case *ssa.SliceToArrayPointer:
		fr.env[instr] = sliceToArrayPointer(instr.Type(), instr.X.Type(), fr.get(instr.X))

	case *ssa.MakeInterface:
		fr.env[instr] = iface{t: instr.X.Type(), v: fr.get(instr.X)}

	case *ssa.Extract:
		fr.env[instr] = fr.get(instr.Tuple).(tuple)[instr.Index]

	case *ssa.Slice:
		fr.env[instr] = slice(fr.get(instr.X), fr.get(instr.Low), fr.get(instr.High), fr.get(instr.Max))

	case *ssa.Return:
		switch len(instr.Results) {
		case 0:
		case 1:
			fr.result = fr.get(instr.Results[0])
		default:
			var res []value
			for _, r := range instr.Results {
				res = append(res, fr.get(r))
			}
			fr.result = tuple(res)
		}
		fr.block = nil
		return kReturn

	case *ssa.RunDefers:
		fr.runDefers()

	case *ssa.Panic:
		panic(targetPanic{fr.get(instr.X)})

	case *ssa.Send:
		chSend(fr.get(instr.Chan).(*schan), fr.get(instr.X))

	case *ssa.Store:
		store(mustDeref(instr.Addr.Type()), fr.get(instr.Addr).(*value), fr.get(instr.Val))

	case *ssa.If:
		succ := 1
		cond := fr.get(instr.Cond)
		if sc, ok := cond.(sym); ok {
			if X.branch(sc) {
				succ = 0
			}
		} else if cond.(bool) {
			succ = 0
		}
		fr.prevBlock, fr.block = fr.block, fr.block.Succs[succ]
		return kJump

	case *ssa.Jump:
		fr.prevBlock, fr.block = fr.block, fr.block.Succs[0]
		return kJump

	case *ssa.Defer:
		fn, args := prepareCall(fr, &instr.Call)
		defers := &fr.defers
		if into := fr.get(instr.DeferStack); into != nil {
			defers = into.(**deferred)
		}
		*defers = &deferred{
			fn:    fn,
			args:  args,
			instr: instr,
			tail:  *defers,
		}

	case *ssa.Go:
		fn, args := prepareCall(fr, &instr.Call)
		{
			i, pos := fr.i, instr.Pos()
			SC.newFiber(SC.cur.grp, func() { call(i, nil, pos, fn, args) })
		}

	case *ssa.MakeChan:
		fr.env[instr] = &schan{cap: int(asInt64(fr.get(instr.Size)))}

	case *ssa.Alloc:
		var addr *value
		if instr.Heap {
			// new
			addr = new(value)
			fr.env[instr] = addr
		} else {
			// local
			addr = fr.env[instr].(*value)
		}
		*addr = zero(mustDeref(instr.Type()))

	case *ssa.MakeSlice:
		slice := make([]value, asInt64(fr.get(instr.Cap)))
		tElt := instr.Type().Underlying().(*types.Slice).Elem()
		for i := range slice {
			slice[i] = zero(tElt)
		}
		fr.env[instr] = slice[:asInt64(fr.get(instr.Len))]

	case *ssa.MakeMap:
		var reserve int64
		if instr.Reserve != nil {
			reserve = asInt64(fr.get(instr.Reserve))
		}
		if !fitsInt(reserve, fr.i.sizes) {
			panic(fmt.Sprintf("ssa.MakeMap.Reserve value %d does not fit in int", reserve))
		}
		fr.env[instr] = makeMap(instr.Type().Underlying().(*types.Map).Key(), reserve)

	case *ssa.Range:
		fr.env[instr] = rangeIter(fr.get(instr.X))

	case *ssa.Next:
		fr.env[instr] = fr.get(instr.Iter).(iter).next()

	case *ssa.FieldAddr:
		fr.env[instr] = &(*fr.get(instr.X).(*value)).(structure)[instr.Field]

	case *ssa.Field:
		fr.env[instr] = fr.get(instr.X).(structure)[instr.Field]

	case *ssa.IndexAddr:
		x := fr.get(instr.X)
		idx := fr.get(instr.Index)
		if si, ok := idx.(sym); ok {
			idx = concretizeIndex(si, x)
		}
		switch x := x.(type) {
		case []value:
			fr.env[instr] = &x[asInt64(idx)]
		case *value: // *array
			fr.env[instr] = &(*x).(array)[asInt64(idx)]
		default:
			panic(fmt.Sprintf("unexpected x type in IndexAddr: %T", x))
		}

	case *ssa.Index:
		x := fr.get(instr.X)
		idx := fr.get(instr.Index)
		if si, ok := idx.(sym); ok {
			idx = concretizeIndex(si, x)
		}

		switch x := x.(type) {
		case array:
			fr.env[instr] = x[asInt64(idx)]
		case string:
			fr.env[instr] = x[asInt64(idx)]
		case *symstr:
			fr.env[instr] = x.b[asInt64(idx)]
		default:
			panic(fmt.Sprintf("unexpected x type in Index: %T", x))
		}

	case *ssa.Lookup:
		fr.env[instr] = lookup(instr, fr.get(instr.X), fr.get(instr.Index))

	case *ssa.MapUpdate:
		m := fr.get(instr.Map)
		key := fr.get(instr.Key)
		v := fr.get(instr.Value)
		switch m := m.(type) {
		case map[value]value:
			if mk, found := symMapKey(m, key); found {
				key = mk
			}
			m[key] = v
		case *hashmap:
			m.insert(key.(hashable), v)
		default:
			panic(fmt.Sprintf("illegal map type: %T", m))
		}

	case *ssa.TypeAssert:
		fr.env[instr] = typeAssert(instr, fr.get(instr.X).(iface))

	case *ssa.MakeClosure:
		var bindings []value
		for _, binding := range instr.Bindings {
			bindings = append(bindings, fr.get(binding))
		}
		fr.env[instr] = &closure{instr.Fn.(*ssa.Function), bindings}

	case *ssa.Phi:
		log.Fatal("unreachable") // phis are processed at block entry

	case *ssa.Select:
		panic("select unsupported in spike")
		var cases []reflect.SelectCase
		chosen, recv, recvOk := reflect.Select(cases)
		if !instr.Blocking {
			chosen-- // default case should have index -1.
		}
		r := tuple{chosen, recvOk}
		for i, st := range instr.States {
			if st.Dir == types.RecvOnly {
				var v value
				if i == chosen && recvOk {
					// No need to copy since send makes an unaliased copy.
					v = recv.Interface().(value)
				} else {
					v = zero(st.Chan.Type().Underlying().(*types.Chan).Elem())
				}
				r = append(r, v)
			}
		}
		fr.env[instr] = r

	default:
		panic(fmt.Sprintf("unexpected instruction: %T", instr))
	}

	// if val, ok := instr.(ssa.Value); ok {
	// 	fmt.Println(toString(fr.env[val])) // debugging
	// }

	return kNext
}

// prepareCall determines the function value and argument values for a
// function call in a Call, Go or Defer instruction, performing
// interface method lookup if needed.
func prepareCall(fr *frame, call *ssa.CallCommon) (fn value, args []value) {
	v := fr.get(call.Value)
	if call.Method == nil {
		// Function call.
		fn = v
	} else {
		// Interface method invocation.
		recv := v.(iface)
		if recv.t == nil {
			panic("method invoked on nil interface")
		}
		if recv.t == cacheType {
			name := call.Method.Name()
			c := (*recv.v.(*value)).(*cacheState)
			fn = hostFn(func(args []value) value { return cacheMethod(c, name, args) })
			for _, arg := range call.Args {
				args = append(args, fr.get(arg))
			}
			return
		}
		if recv.t == b2bType {
			name := call.Method.Name()
			rv := recv.v
			fn = hostFn(func(args []value) value {
				r, ok := b2bMethod(name, rv, args)
				if !ok {
					panic(engineLimit{"hash method " + name})
				}
				return r
			})
			for _, arg := range call.Args {
				args = append(args, fr.get(arg))
			}
			return
		}
		if f := lookupMethod(fr.i, recv.t, call.Method); f == nil {
			// Unreachable in well-typed programs.
			panic(fmt.Sprintf("method set for dynamic type %v does not contain %s", recv.t, call.Method))
		} else {
			fn = f
		}
		args = append(args, recv.v)
	}
	for _, arg := range call.Args {
		args = append(args, fr.get(arg))
	}
	return
}

// call interprets a call to a function (function, builtin or closure)
// fn with arguments args, returning its result.
// callpos is the position of the callsite.
func call(i *interpreter, caller *frame, callpos token.Pos, fn value, args []value) value {
	switch fn := fn.(type) {
	case *ssa.Function:
		if fn == nil {
			panic("call of nil function") // nil of func type
		}
		return callSSA(i, caller, callpos, fn, args, nil)
	case *closure:
		return callSSA(i, caller, callpos, fn.Fn, args, fn.Env)
	case *ssa.Builtin:
		return callBuiltin(caller, fn, args)
	case hostFn:
		return fn(args)
	}
	panic(fmt.Sprintf("cannot call %T", fn))
}

func loc(fset *token.FileSet, pos token.Pos) string {
	if pos == token.NoPos {
		return ""
	}
	return " at " + fset.Position(pos).String()
}

// callSSA interprets a call to function fn with arguments args,
// and lexical environment env, returning its result.
// callpos is the position of the callsite.
func callSSA(i *interpreter, caller *frame, callpos token.Pos, fn *ssa.Function, args []value, env []value) value {
	if i.mode&EnableTracing != 0 {
		fset := fn.Prog.Fset
		// TODO(adonovan): fix: loc() lies for external functions.
		fmt.Fprintf(os.Stderr, "Entering %s%s.\n", fn, loc(fset, fn.Pos()))
		suffix := ""
		if caller != nil {
			suffix = ", resuming " + caller.fn.String() + loc(fset, callpos)
		}
		defer fmt.Fprintf(os.Stderr, "Leaving %s%s.\n", fn, suffix)
	}
	fr := &frame{
		i:      i,
		caller: caller, // for panic/recover
		fn:     fn,
	}
	stackMu.Lock()
	Stack = append(Stack, fn.String())
	stackMu.Unlock()
	defer func() {
		if r := recover(); r != nil {
			Panicked = true
			panic(r)
		}
	}()
	defer func() {
		stackMu.Lock()
		if !Panicked && len(Stack) > 0 {
			Stack = Stack[:len(Stack)-1]
		}
		stackMu.Unlock()
	}()
	if fn.Parent() == nil {
		name := fn.String()
		pkgPath := ""
		if fn.Pkg != nil {
			pkgPath = fn.Pkg.Pkg.Path()
		} else if o := fn.Object(); o != nil && o.Pkg() != nil {
			pkgPath = o.Pkg().Path()
		}
		if fn.Name() == "init" && fn.Synthetic != "" && fn.Pkg != nil && InitAllow != nil && !InitAllow(pkgPath) {
			return nil
		}
		if len(stubOn) > 0 && stubOn[fn.Name()] && fn.Pkg != nil {
			// symStub: calls to a function of the package under test are redirected
			// to the harness function VerifStub_<name> (same signature)
			if st := fn.Pkg.Func("VerifStub_" + fn.Name()); st != nil {
				return callSSA(i, caller, callpos, st, args, nil)
			}
			if MainPkg != nil {
				if st := MainPkg.Func("VerifStub_" + fn.Name()); st != nil {
					return callSSA(i, caller, callpos, st, args, nil)
				}
			}
		}
		if strings.HasPrefix(fn.Name(), "sym") && strings.HasPrefix(pkgPath, "github.com/jrhy/") {
			if h := Intrinsics[fn.Name()]; h != nil {
				return h(fr, args)
			}
		}
		if h := Hooks[name]; h != nil {
			HookHits[name]++
			return h(fr, args)
		}
		if ext := externals[name]; ext != nil {
			if i.mode&EnableTracing != 0 {
				fmt.Fprintln(os.Stderr, "\t(external)")
			}
			HookHits[name]++
			return ext(fr, args)
		}
		if fn.Blocks == nil && fn.Pkg != nil {
			fn.Pkg.Build()
		}
		if fn.Blocks == nil {
			panic(engineLimit{"no code for function: " + name})
		}
		if modelledPkgs[pkgPath] && !modelledAllow[name] {
			panic(engineLimit{"un-modelled function of a modelled package: " + name})
		}
		if X != nil && strings.HasPrefix(pkgPath, "github.com/jrhy/") && isRepoFunc(fn) {
			X.St.Funcs[name]++
		}
		if ph := PreHooks[name]; ph != nil {
			ph(fr, args)
		}
	}

	// generic function body?
	if fn.TypeParams().Len() > 0 && len(fn.TypeArgs()) == 0 {
		panic("interp requires ssa.BuilderMode to include InstantiateGenerics to execute generics")
	}

	fr.env = make(map[ssa.Value]value)
	fr.block = fn.Blocks[0]
	fr.locals = make([]value, len(fn.Locals))
	for i, l := range fn.Locals {
		fr.locals[i] = zero(mustDeref(l.Type()))
		fr.env[l] = &fr.locals[i]
	}
	for i, p := range fn.Params {
		fr.env[p] = args[i]
	}
	for i, fv := range fn.FreeVars {
		fr.env[fv] = env[i]
	}
	for fr.block != nil {
		runFrame(fr)
	}
	// Destroy the locals to avoid accidental use after return.
	for i := range fn.Locals {
		fr.locals[i] = bad{}
	}
	return fr.result
}

// runFrame executes SSA instructions starting at fr.block and
// continuing until a return, a panic, or a recovered panic.
//
// After a panic, runFrame panics.
//
// After a normal return, fr.result contains the result of the call
// and fr.block is nil.
//
// A recovered panic in a function without named return parameters
// (NRPs) becomes a normal return of the zero value of the function's
// result type.
//
// After a recovered panic in a function with NRPs, fr.result is
// undefined and fr.block contains the block at which to resume
// control.
func runFrame(fr *frame) {
	defer func() {
		if fr.block == nil {
			return // normal return
		}
		if fr.i.mode&DisableRecover != 0 {
			return // let interpreter crash
		}
		fr.panicking = true
		fr.panic = recover()
		if fr.i.mode&EnableTracing != 0 {
			fmt.Fprintf(os.Stderr, "Panicking: %T %v.\n", fr.panic, fr.panic)
		}
		fr.runDefers()
		fr.block = fr.fn.Recover
	}()

	for {
		if fr.i.mode&EnableTracing != 0 {
			fmt.Fprintf(os.Stderr, ".%s:\n", fr.block)
		}

		nonPhis := executePhis(fr)
		for _, instr := range nonPhis {
			if fr.i.mode&EnableTracing != 0 {
				if v, ok := instr.(ssa.Value); ok {
					fmt.Fprintln(os.Stderr, "\t", v.Name(), "=", instr)
				} else {
					fmt.Fprintln(os.Stderr, "\t", instr)
				}
			}
			if X != nil {
				X.steps++
				if X.steps > X.MaxSteps {
					panic(unwindAbort{"step budget exceeded in " + fr.fn.String()})
				}
			}
			if visitInstr(fr, instr) == kReturn {
				return
			}
			// Inv: kNext (continue) or kJump (last instr)
		}
	}
}

// executePhis executes the phi-nodes at the start of the current
// block and returns the non-phi instructions.
func executePhis(fr *frame) []ssa.Instruction {
	firstNonPhi := -1
	for i, instr := range fr.block.Instrs {
		if _, ok := instr.(*ssa.Phi); !ok {
			firstNonPhi = i
			break
		}
	}
	// Inv: 0 <= firstNonPhi; every block contains a non-phi.

	nonPhis := fr.block.Instrs[firstNonPhi:]
	if firstNonPhi > 0 {
		phis := fr.block.Instrs[:firstNonPhi]
		// Execute parallel assignment of phis.
		//
		// See "the swap problem" in Briggs et al's "Practical Improvements
		// to the Construction and Destruction of SSA Form" for discussion.
		predIndex := slices.Index(fr.block.Preds, fr.prevBlock)
		fr.phitemps = fr.phitemps[:0]
		for _, phi := range phis {
			phi := phi.(*ssa.Phi)
			if fr.i.mode&EnableTracing != 0 {
				fmt.Fprintln(os.Stderr, "\t", phi.Name(), "=", phi)
			}
			fr.phitemps = append(fr.phitemps, fr.get(phi.Edges[predIndex]))
		}
		for i, phi := range phis {
			fr.env[phi.(*ssa.Phi)] = fr.phitemps[i]
		}
	}
	return nonPhis
}

// doRecover implements the recover() built-in.
func doRecover(caller *frame) value {
	// recover() must be exactly one level beneath the deferred
	// function (two levels beneath the panicking function) to
	// have any effect.  Thus we ignore both "defer recover()" and
	// "defer f() -> g() -> recover()".
	if caller.i.mode&DisableRecover == 0 &&
		caller != nil && !caller.panicking &&
		caller.caller != nil && caller.caller.panicking {
		caller.caller.panicking = false
		p := caller.caller.panic
		caller.caller.panic = nil

		// TODO(adonovan): support runtime.Goexit.
		switch p := p.(type) {
		case targetPanic:
			// The target program explicitly called panic().
			return p.v
		case runtime.Error:
			// The interpreter encountered a runtime error.
			return iface{caller.i.runtimeErrorString, p.Error()}
		case string:
			// The interpreter explicitly called panic().
			return iface{caller.i.runtimeErrorString, p}
		default:
			panic(fmt.Sprintf("unexpected panic type %T in target call to recover()", p))
		}
	}
	return iface{}
}

var needsInit = map[*ssa.Global]bool{}

// InitVars: "pkgpath.name" of every package-level variable with an initialiser.
var InitVars = map[string]bool{}
var MainPkg *ssa.Package

type Machine struct {
	i       *interpreter
	mainpkg *ssa.Package
	presets map[*ssa.Global]value
}

// Setup prepares an interpreter for mainpkg: global storage, presets for
// skipped std inits, the uninitialised-global guard.
func Setup(mainpkg *ssa.Package, mode Mode, sizes types.Sizes) *Machine {
	i := &interpreter{
		prog:       mainpkg.Prog,
		globals:    make(map[*ssa.Global]*value),
		mode:       mode,
		sizes:      sizes,
		goroutines: 1,
	}
	runtimePkg := i.prog.ImportedPackage("runtime")
	if runtimePkg != nil {
		i.runtimeErrorString = runtimePkg.Type("errorString").Object().Type()
	}
	initReflect(i)
	m := &Machine{i: i, mainpkg: mainpkg, presets: map[*ssa.Global]value{}}
	MainPkg = mainpkg
	for _, pkg := range i.prog.AllPackages() {
		for _, mem := range pkg.Members {
			if v, ok := mem.(*ssa.Global); ok {
				cell := zero(mustDeref(v.Type()))
				i.globals[v] = &cell
			}
		}
		// guard: globals written by a skipped init
		// (the variables that have an initialiser come from go/types' InitOrder)
		if InitAllow != nil && !InitAllow(pkg.Pkg.Path()) {
			for _, mem := range pkg.Members {
				if g, ok := mem.(*ssa.Global); ok && InitVars[pkg.Pkg.Path()+"."+g.Name()] {
					needsInit[g] = true
				}
			}
		}
	}
	// presets for skipped std inits
	est := i.prog.ImportedPackage("errors").Type("errorString").Object().Type()
	preset := func(pkg, n string) {
		p := i.prog.ImportedPackage(pkg)
		if p == nil {
			return
		}
		g := p.Var(n)
		if g == nil {
			return
		}
		var cell value = structure{pkg + "." + n}
		m.presets[g] = iface{types.NewPointer(est), &cell}
		delete(needsInit, g)
	}
	// globals that are only ever handed to an intercept (their value is never inspected)
	for _, pn := range [][2]string{{"golang.org/x/crypto/salsa20/salsa", "Sigma"}, {"encoding/base64", "RawURLEncoding"}, {"encoding/base64", "StdEncoding"}, {"encoding/base64", "URLEncoding"}, {"encoding/base64", "RawStdEncoding"}} {
		if p := i.prog.ImportedPackage(pn[0]); p != nil {
			if g := p.Var(pn[1]); g != nil {
				delete(needsInit, g)
			}
		}
	}
	for _, n := range []string{"EOF", "ErrUnexpectedEOF", "ErrShortWrite", "ErrNoProgress", "ErrShortBuffer"} {
		preset("io", n)
	}
	preset("context", "Canceled")
	preset("strconv", "ErrRange")
	preset("strconv", "ErrSyntax")
	preset("bytes", "ErrTooLarge")
	preset("bytes", "errNegativeRead")
	preset("bytes", "errUnreadByte")
	m.Reinit()
	return m
}

// Reinit zeroes the globals of the packages whose init runs and runs the
// init chain again, so every path starts from the same package state.
func (m *Machine) Reinit() {
	i := m.i
	for g, cell := range i.globals {
		if g.Pkg != nil && InitAllow != nil && InitAllow(g.Pkg.Pkg.Path()) {
			*cell = zero(mustDeref(g.Type()))
		}
	}
	for g, v := range m.presets {
		*i.globals[g] = v
	}
	schedReset()
	call(i, nil, token.NoPos, m.mainpkg.Func("init"), nil)
}

// RunEntry runs the named harness function once (one path).
func (m *Machine) RunEntry(name string) {
	f := m.mainpkg.Func(name)
	if f == nil {
		panic("no such harness entry: " + name)
	}
	m.Reinit()
	call(m.i, nil, token.NoPos, f, nil)
}

func (m *Machine) HasEntry(name string) bool { return m.mainpkg.Func(name) != nil }

// concretizeIndex forks over the valid positions of a symbolic index
// (plus one out-of-range alternative, which panics like Go does).
func concretizeIndex(si sym, x value) value {
	n := 0
	switch c := x.(type) {
	case []value:
		n = len(c)
	case array:
		n = len(c)
	case string:
		n = len(c)
	case *symstr:
		n = len(c.b)
	case *value:
		n = len((*c).(array))
	}
	d := X.decide(n+1, func(i int) string {
		if i < n {
			return "(= " + si.term + " " + lift(convInt(si.kind, int64(i))).term + ")"
		}
		lim := lift(convInt(si.kind, int64(n))).term
		if signed(si.kind) {
			return "(or (bvslt " + si.term + " " + lift(convInt(si.kind, 0)).term + ") (bvsge " + si.term + " " + lim + "))"
		}
		return "(bvuge " + si.term + " " + lim + ")"
	})
	if d == n {
		panic(targetPanic{iface{nil, "runtime error: index out of range (symbolic index)"}})
	}
	return convInt(si.kind, int64(d))
}

var repoFuncCache = map[*ssa.Function]bool{}

// isRepoFunc: a function of the code under test (not of an overlaid harness
// file, not a synthetic init).
func isRepoFunc(fn *ssa.Function) bool {
	if r, ok := repoFuncCache[fn]; ok {
		return r
	}
	r := true
	if fn.Synthetic != "" || fn.Name() == "init" || strings.HasPrefix(fn.Name(), "init#") {
		r = false
	} else if fn.Pos().IsValid() {
		f := fn.Prog.Fset.Position(fn.Pos()).Filename
		if strings.Contains(f, "zz_verif_") {
			r = false
		}
	}
	repoFuncCache[fn] = r
	return r
}

var stubOn = map[string]bool{}

func init() {
	pathResets = append(pathResets, func() { stubOn = map[string]bool{} })
	Intrinsics["symStub"] = func(fr *frame, a []value) value {
		stubOn[strArg(a[0])] = a[1].(bool)
		return nil
	}
}

type hostFn func(args []value) value
