package main

func main() { cliMain() }
