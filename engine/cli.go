package main

import (
	"bufio"
	"encoding/json"
	"flag"
	"fmt"
	"go/types"
	"os"
	"os/exec"
	"path/filepath"
	"runtime"
	"runtime/debug"
	"sort"
	"strings"
	"sync"
	"time"

	"golang.org/x/tools/go/packages"
	"golang.org/x/tools/go/ssa"
	"golang.org/x/tools/go/ssa/ssautil"
	interp "verif/gosym/interp"
)

type options struct {
	repo      string
	pkg       string
	entry     string
	files     string
	workers   int
	out       string
	known     string
	dump      string
	feasMS    int
	assertMS  int
	maxSteps  int
	samples   int
	seed      int
	timeout   int
	stopViol  int
	summary   string
	params    string
	keepPC    bool
	budget    int
	solver    string
	modelEval bool
}

func parseFlags(args []string) *options {
	o := &options{}
	fs := flag.NewFlagSet("gosym", flag.ExitOnError)
	fs.StringVar(&o.repo, "repo", "/repo", "repository root")
	fs.StringVar(&o.pkg, "pkg", ".", "package dir relative to repo (., kv, sqlite, kv/internal/crdt)")
	fs.StringVar(&o.entry, "entry", "", "harness entry function")
	fs.StringVar(&o.files, "files", "", "comma-separated harness files to overlay into the package")
	fs.IntVar(&o.workers, "workers", 1, "worker processes")
	fs.StringVar(&o.out, "out", "", "result json")
	fs.StringVar(&o.known, "known", "", "known findings json")
	fs.StringVar(&o.dump, "dump", "", "directory for standalone verdict queries")
	fs.IntVar(&o.feasMS, "feas-ms", 1500, "branch feasibility timeout")
	fs.IntVar(&o.assertMS, "assert-ms", 120000, "assertion query timeout")
	fs.IntVar(&o.maxSteps, "max-steps", 4000000, "per-path step budget (unwinding assertion)")
	fs.IntVar(&o.samples, "samples", 3, "sample paths with models per worker batch")
	fs.IntVar(&o.seed, "seed", 0, "seed for sample selection")
	fs.IntVar(&o.timeout, "timeout", 1800, "wall clock limit (s)")
	fs.IntVar(&o.stopViol, "stop-viol", 0, "stop exploring after this many violations outside the known findings (0 = explore everything; for the seed matrix only)")
	fs.StringVar(&o.summary, "summary", "", "summary-mode dump file (paths with pc and observations)")
	fs.StringVar(&o.params, "params", "", "harness parameters k=v,k=v")
	fs.BoolVar(&o.keepPC, "keep-pc", false, "keep path conditions in samples")
	fs.IntVar(&o.budget, "budget", 0, "paths per work item (0 = adaptive)")
	fs.StringVar(&o.solver, "solver", "z3-new -in", "solver command")
	fs.BoolVar(&o.modelEval, "model-eval", false, "decide the model-satisfied side of a branch without a query (experimental)")
	fs.Parse(args)
	return o
}

func cliMain() {
	if len(os.Args) < 2 {
		fmt.Fprintln(os.Stderr, "usage: gosym run|worker|concrete [flags]")
		os.Exit(2)
	}
	switch os.Args[1] {
	case "run":
		os.Exit(master(parseFlags(os.Args[2:]), os.Args[2:]))
	case "worker":
		worker(parseFlags(os.Args[2:]))
	case "replay":
		replay(parseFlags(os.Args[3:]), os.Args[2])
	default:
		fmt.Fprintln(os.Stderr, "unknown mode")
		os.Exit(2)
	}
}

func load(o *options) (*interp.Machine, *ssa.Package) {
	overlay := map[string][]byte{}
	dir := filepath.Join(o.repo, o.pkg)
	for _, f := range strings.Split(o.files, ",") {
		if f == "" {
			continue
		}
		b, err := os.ReadFile(strings.SplitN(f, "@", 2)[0])
		if err != nil {
			fatal("read harness: %v", err)
		}
		d := dir
		if i := strings.Index(f, "@"); i > 0 {
			// file@reldir: overlay into another package directory of the repository
			d = filepath.Join(o.repo, f[i+1:])
		}
		overlay[filepath.Join(d, "zz_verif_"+filepath.Base(strings.SplitN(f, "@", 2)[0]))] = b
	}
	cfg := &packages.Config{Mode: packages.LoadAllSyntax, Dir: o.repo, Env: append(os.Environ(), "GOFLAGS=-mod=mod"), Overlay: overlay}
	pat := "./" + o.pkg
	if o.pkg == "." {
		pat = "."
	}
	pkgs, err := packages.Load(cfg, pat)
	if err != nil {
		fatal("load: %v", err)
	}
	if packages.PrintErrors(pkgs) > 0 {
		fatal("package errors")
	}
	prog, spkgs := ssautil.AllPackages(pkgs, ssa.InstantiateGenerics)
	// Function bodies are built lazily, package by package, when a function of
	// the package is first called (building all ~320 dependency packages costs
	// ~2 GB per worker).  Packages under test are built up front.
	interp.InitVars = map[string]bool{}
	packages.Visit(pkgs, nil, func(p *packages.Package) {
		if p.TypesInfo != nil {
			for _, ini := range p.TypesInfo.InitOrder {
				for _, v := range ini.Lhs {
					interp.InitVars[p.PkgPath+"."+v.Name()] = true
				}
			}
		}
	})
	for _, sp := range prog.AllPackages() {
		if strings.HasPrefix(sp.Pkg.Path(), "github.com/jrhy/") {
			sp.Build()
		}
	}
	interp.InitAllow = func(p string) bool {
		return strings.HasPrefix(p, "github.com/jrhy/") && !strings.Contains(p, "proto/v1") && !strings.HasSuffix(p, "/sql")
	}
	mode := interp.DisableRecover
	if os.Getenv("VERIF_TRACE") != "" {
		mode |= interp.EnableTracing
	}
	m := interp.Setup(spkgs[0], mode, &types.StdSizes{WordSize: 8, MaxAlign: 8})
	main := spkgs[0]
	pkgs = nil
	debug.SetGCPercent(40)
	runtime.GC()
	return m, main
}

func fatal(f string, a ...any) {
	fmt.Fprintf(os.Stderr, "gosym: "+f+"\n", a...)
	os.Exit(2)
}

type workReq struct {
	Prefix [][]int `json:"prefix"`
	Budget int     `json:"budget"`
	Quit   bool    `json:"quit,omitempty"`
}

func worker(o *options) {
	interp.SolverCmd = strings.Fields(o.solver)
	m, _ := load(o)
	if !m.HasEntry(o.entry) {
		fatal("no entry %s", o.entry)
	}
	e := interp.NewExplorer(o.entry)
	e.FeasMS, e.AssertMS, e.MaxSteps, e.SampleN, e.SampleSeed = o.feasMS, o.assertMS, o.maxSteps, o.samples, o.seed
	e.DumpDir = o.dump
	e.KeepPC = o.keepPC
	e.ModelEval = o.modelEval
	if o.known != "" {
		e.Known = interp.LoadKnown(o.known)
	}
	interp.Params = map[string]int{}
	for _, kv := range strings.Split(o.params, ",") {
		var k string
		var v int
		if i := strings.Index(kv, "="); i > 0 {
			k = kv[:i]
			fmt.Sscanf(kv[i+1:], "%d", &v)
			interp.Params[k] = v
		}
	}
	if o.summary != "" {
		e.OpenSummary(fmt.Sprintf("%s.%d", o.summary, os.Getpid()))
	}
	in := bufio.NewScanner(os.Stdin)
	in.Buffer(make([]byte, 1<<20), 1<<28)
	out := bufio.NewWriter(os.Stdout)
	fmt.Fprintln(out, `{"ready":true}`)
	out.Flush()
	for in.Scan() {
		var req workReq
		if err := json.Unmarshal(in.Bytes(), &req); err != nil {
			fatal("bad request: %v", err)
		}
		if req.Quit {
			break
		}
		e.ResetResults()
		left := e.RunAll(func() { m.RunEntry(o.entry) }, req.Prefix, req.Budget)
		res := e.Result(left)
		b, _ := json.Marshal(res)
		out.Write(b)
		out.WriteByte('\n')
		out.Flush()
	}
	e.CloseSummary()
	e.S.Close()
}

type Result struct {
	Harness     string             `json:"harness"`
	Pkg         string             `json:"pkg"`
	Stats       interp.Stats       `json:"stats"`
	Violations  []interp.Violation `json:"violations"`
	Samples     []interp.Sample    `json:"samples"`
	WallS       float64            `json:"wall_s"`
	Workers     int                `json:"workers"`
	TimedOut    bool               `json:"timed_out"`
	StoppedEarly bool              `json:"stopped_early,omitempty"`
	WorkerFail  string             `json:"worker_fail,omitempty"`
	Params      string             `json:"params"`
	SummaryFile []string           `json:"summary_files,omitempty"`
}

func master(o *options, rawArgs []string) int {
	t0 := time.Now()
	self, _ := os.Executable()
	type wk struct {
		cmd  *exec.Cmd
		in   *bufio.Writer
		out  *bufio.Scanner
		busy bool
	}
	var mu sync.Mutex
	queue := [][]int{{}}
	queue[0] = []int{}
	res := Result{Harness: o.entry, Pkg: o.pkg, Workers: o.workers, Params: o.params}
	seenViol := map[string]bool{}
	unknownViol, stopped := 0, false
	busy := 0
	cond := sync.NewCond(&mu)
	deadline := t0.Add(time.Duration(o.timeout) * time.Second)
	failed := ""
	var wg sync.WaitGroup
	var procs []*exec.Cmd
	for w := 0; w < o.workers; w++ {
		c := exec.Command(self, append([]string{"worker"}, rawArgs...)...)
		c.Stderr = os.Stderr
		if o.out != "" {
			if ef, err := os.Create(fmt.Sprintf("%s.stderr.%d", o.out, w)); err == nil {
				c.Stderr = ef
				defer ef.Close()
			}
		}
		stdin, _ := c.StdinPipe()
		stdout, _ := c.StdoutPipe()
		if err := c.Start(); err != nil {
			fatal("start worker: %v", err)
		}
		procs = append(procs, c)
		k := &wk{cmd: c, in: bufio.NewWriter(stdin), out: bufio.NewScanner(stdout)}
		k.out.Buffer(make([]byte, 1<<20), 1<<30)
		wg.Add(1)
		go func(k *wk) {
			defer wg.Done()
			if !k.out.Scan() { // ready line
				mu.Lock()
				failed = "worker died during load"
				cond.Broadcast()
				mu.Unlock()
				return
			}
			for {
				mu.Lock()
				for len(queue) == 0 && busy > 0 && failed == "" && !stopped && time.Now().Before(deadline) {
					cond.Wait()
				}
				if len(queue) == 0 || failed != "" || stopped || !time.Now().Before(deadline) {
					mu.Unlock()
					b, _ := json.Marshal(workReq{Quit: true})
					k.in.Write(b)
					k.in.WriteByte('\n')
					k.in.Flush()
					return
				}
				// take a batch: spread while the queue is short
				n := 1
				budget := o.budget
				if budget == 0 {
					budget = 4
					if len(queue) > 3*o.workers {
						budget = 48
						n = 1 + len(queue)/(4*o.workers)
						if n > 8 {
							n = 8
						}
					}
					if o.workers == 1 {
						budget = 256
					}
				}
				if n > len(queue) {
					n = len(queue)
				}
				batch := append([][]int{}, queue[len(queue)-n:]...)
				queue = queue[:len(queue)-n]
				busy++
				mu.Unlock()
				b, _ := json.Marshal(workReq{Prefix: batch, Budget: budget})
				k.in.Write(b)
				k.in.WriteByte('\n')
				k.in.Flush()
				ok := k.out.Scan()
				mu.Lock()
				busy--
				if !ok {
					failed = "worker died"
					cond.Broadcast()
					mu.Unlock()
					return
				}
				var wr interp.WorkerResult
				if err := json.Unmarshal(k.out.Bytes(), &wr); err != nil {
					failed = "bad worker output: " + err.Error()
					cond.Broadcast()
					mu.Unlock()
					return
				}
				interp.MergeStats(&res.Stats, wr.Stats)
				for _, v := range wr.Viol {
					key := fmt.Sprint(v.AssertID, v.Trace)
					if !seenViol[key] {
						seenViol[key] = true
						if len(res.Violations) < 400 {
							res.Violations = append(res.Violations, v)
						}
						if v.Known == "" {
							unknownViol++
						}
						if o.stopViol > 0 && unknownViol >= o.stopViol {
							stopped = true
						}
					}
				}
				if len(res.Samples) < 64 {
					res.Samples = append(res.Samples, wr.Samples...)
				}
				queue = append(queue, wr.Leftover...)
				cond.Broadcast()
				mu.Unlock()
			}
		}(k)
	}
	// watchdog
	done := make(chan struct{})
	go func() {
		select {
		case <-done:
		case <-time.After(time.Until(deadline) + 20*time.Second):
			mu.Lock()
			res.TimedOut = true
			mu.Unlock()
			for _, p := range procs {
				p.Process.Kill()
			}
		}
	}()
	wg.Wait()
	close(done)
	for _, p := range procs {
		p.Wait()
	}
	mu.Lock()
	defer mu.Unlock()
	if !time.Now().Before(deadline) && (len(queue) > 0 || busy > 0) && !stopped {
		res.TimedOut = true
	}
	res.StoppedEarly = stopped
	res.WorkerFail = failed
	res.WallS = time.Since(t0).Seconds()
	sort.Slice(res.Violations, func(i, j int) bool {
		return fmt.Sprint(res.Violations[i].Trace) < fmt.Sprint(res.Violations[j].Trace)
	})
	if o.summary != "" {
		m, _ := filepath.Glob(o.summary + ".*")
		res.SummaryFile = m
	}
	b, _ := json.MarshalIndent(res, "", " ")
	if o.out != "" {
		os.WriteFile(o.out, b, 0o644)
	} else {
		os.Stdout.Write(b)
	}
	fmt.Fprintf(os.Stderr, "gosym %s: paths=%d queries=%d viol=%d inconclusive=%d unknownfeas=%d wall=%.1fs timedout=%v fail=%q\n",
		o.entry, res.Stats.Paths, res.Stats.Queries, len(res.Violations), res.Stats.Inconclusive, res.Stats.UnknownFeas, res.WallS, res.TimedOut, failed)
	if failed != "" || res.TimedOut {
		return 2
	}
	return 0
}

// replay runs one recorded path on the interpreter with the inputs pinned
// (debugging aid: compares the engine's view with the native replay).
func replay(o *options, file string) {
	b, err := os.ReadFile(file)
	if err != nil {
		fatal("%v", err)
	}
	var r struct {
		Harness string            `json:"harness"`
		Pkg     string            `json:"pkg"`
		Vars    map[string]string `json:"vars"`
		Choices []int             `json:"choices"`
		Params  map[string]int    `json:"params"`
		UF      map[string]int    `json:"uf"`
	}
	json.Unmarshal(b, &r)
	o.pkg, o.entry = r.Pkg, r.Harness
	interp.SolverCmd = strings.Fields(o.solver)
	m, _ := load(o)
	e := interp.NewExplorer(o.entry)
	e.KeepPC = true
	interp.Params = r.Params
	interp.ReplayOn, interp.ReplayVars, interp.ReplayChoices, interp.ReplayUF = true, r.Vars, r.Choices, r.UF
	left := e.RunAll(func() { m.RunEntry(o.entry) }, [][]int{{}}, 50)
	res := e.Result(left)
	out, _ := json.MarshalIndent(res, "", " ")
	os.Stdout.Write(out)
}
