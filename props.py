"""Per-property check configuration: which harness entries run, with which
bounds per tier.  Bounds registered here were run clean (no inconclusive path,
no solver unknown on a verdict query) on the unchanged tree."""

TIME_RANGE = "all instants are in (0, 2^62) ns since the Unix epoch (no time.Add/Sub saturation; years < 2116)"

PROPS = {
    "C07": {
        "harnesses": [
            {"pkg": ".", "dir": "s3db", "entry": "VerifH_C07_pair",
             "asserts": ["antisymmetric", "matches-sqlite", "equal-only-for-equal-values"],
             "quick": {"params": "maxlen=2", "workers": 16, "timeout": 900, "assert_ms": 300000},
             "thorough": {"params": "maxlen=3", "workers": 16, "timeout": 3000, "assert_ms": 600000}},
            {"pkg": ".", "dir": "s3db", "entry": "VerifH_C07_layer",
             "quick": {"params": "bf=2", "workers": 8, "timeout": 600},
             "thorough": {"params": "bf=2", "workers": 16, "timeout": 1800}},
            {"pkg": ".", "dir": "s3db", "entry": "VerifH_C07_insert_equal",
             "quick": {"params": "keys=4", "workers": 8, "timeout": 900},
             "thorough": {"params": "keys=6", "workers": 16, "timeout": 3000}},
            {"pkg": ".", "dir": "s3db", "entry": "VerifH_C07_null",
             "quick": {"workers": 1}},
            {"pkg": ".", "dir": "s3db", "entry": "VerifH_C07_triple", "thorough_only": True, "reach": ["end", "chain"],
             "thorough": {"params": "maxlen=1,classes=4", "workers": 16, "timeout": 5000, "assert_ms": 600000}},
        ],
        "bounds": {"quick": "pairs of keys: INT any int64, REAL any non-NaN float64, TEXT/BLOB 0..2 symbolic bytes",
                   "thorough": "pairs: TEXT/BLOB 0..3 bytes; triples (transitivity): TEXT/BLOB 0..1 bytes, numbers full width"},
        "outside": "text/blob longer than the bound (same per-byte step); NaN keys (SQLite stores NaN as NULL)",
        "assumptions": ["SQLite reference comparator transcribed from sqlite3MemCompare/sqlite3IntFloatCompare (the non-long-double branch)",
                        "layer hash crc64 modelled as an uninterpreted function of the bytes handed to it"],
    },
}

PROPS["C16"] = {
    "harnesses": [
        {"pkg": ".", "dir": "s3db", "entry": "VerifH_C16_codec",
         "quick": {"workers": 8, "timeout": 600}},
        {"pkg": "kv", "dir": "kv", "entry": "VerifH_C16_shared_cache", "quick": {"workers": 2, "timeout": 600}},
        {"pkg": ".", "dir": "s3db", "entry": "VerifH_C16_fresh", "tag": "-cache",
         "quick": {"params": "keys=3,commits=2,maxlayer=2,cache=8", "workers": 16, "timeout": 900}},
        {"pkg": ".", "dir": "s3db", "entry": "VerifH_C16_fresh",
         "quick": {"params": "keys=3,commits=2,maxlayer=2", "workers": 16, "timeout": 900, "samples": 3, "validate": 4},
         "thorough": {"params": "keys=4,commits=2,maxlayer=2", "workers": 16, "timeout": 3000}},
    ],
    "bounds": {"quick": "3 symbolic INT keys (full int64), entries_per_node 2, layers 0..2 (uninterpreted), 2 commits",
               "thorough": "4 keys"},
    "outside": "protobuf wire bytes (opaque codec with proto3 presence rules)",
    "assumptions": [TIME_RANGE],
}

PROPS["C04"] = {
    "harnesses": [
        {"pkg": ".", "dir": "s3db", "entry": "VerifH_C04_commit",
         "quick": {"params": "maxstmts=1", "workers": 16, "timeout": 900},
         "thorough": {"params": "maxstmts=2", "workers": 16, "timeout": 3000}},
        {"pkg": ".", "dir": "s3db", "entry": "VerifH_C04_vacuum", "quick": {"workers": 16, "timeout": 900}},
    ],
    "bounds": {"quick": "vacuum: 3 table shapes x 3 cutoffs, crash index symbolic over every mutating request of vacuum; committed prefix in {empty, 3 keys, 5 keys (depth 2), two unmerged versions}; transaction of 1 statement from {insert, update, delete, insert-growing-the-tree}; crash index symbolic over every mutating request of open+commit",
               "thorough": "transactions of 1..2 statements"},
    "outside": "torn single PUTs (objects are atomic), crash of the store, SQLite's journal",
    "assumptions": [TIME_RANGE, "a crash is modelled as the store refusing the k-th mutating request and everything after it (same bucket state as a process death between two requests)"],
}
PROPS["C13"] = {
    "harnesses": [
        {"pkg": ".", "dir": "s3db", "entry": "VerifH_C13_readonly",
         "quick": {"params": "maxversions=2,steps=2", "workers": 16, "timeout": 900},
         "thorough": {"params": "maxversions=3,steps=3", "workers": 16, "timeout": 3000}},
        {"pkg": "sqlite", "dir": "sqlite", "entry": "VerifH_C13_sqlite", "extra": [("s3db_export", ".")], "no_native": True,
         "quick": {"params": "steps=2", "workers": 16, "timeout": 1800},
         "thorough": {"params": "steps=3", "workers": 16, "timeout": 7200}},
        {"pkg": "sqlite", "dir": "sqlite", "entry": "VerifH_C13_sqlite", "tag": "-txn-shaped", "extra": [("s3db_export", ".")], "no_native": True,
         "quick": {"params": "steps=3,opset=1", "workers": 16, "timeout": 1800},
         "thorough": {"params": "steps=4,opset=1", "workers": 16, "timeout": 7200}},
    ],
    "bounds": {"quick": "0..2 unmerged versions, optionally merged by a writer since (superseded history present); sequences of 2 operations from {insert, update, delete, begin+commit, begin+rollback, vacuum, delete-historic-versions, roots}; at the sqlite layer 2 statements from {INSERT, UPDATE, DELETE, BEGIN..refused write..COMMIT, s3db_refresh+s3db_version (optionally after another writer committed), s3db_changes, s3db_vacuum} and 3 statements from {INSERT, BEGIN..COMMIT, refresh}",
               "thorough": "0..3 versions, 3 operations; sqlite layer 3 and 4 statements"},
    "outside": "argument parsing of the maintenance tables",
    "assumptions": [TIME_RANGE],
}

PROPS["C09"] = {
    "harnesses": [
        {"pkg": ".", "dir": "s3db", "entry": "VerifH_C09_vacuum",
         "quick": {"params": "steps=3", "workers": 16, "timeout": 1200},
         "thorough": {"params": "steps=4", "workers": 16, "timeout": 6000}},
        {"pkg": ".", "dir": "s3db", "entry": "VerifH_C09_vacuum", "tag": "-cache-two-rounds",
         "quick": {"params": "steps=2,rounds=2,cache=8", "workers": 16, "timeout": 1800},
         "thorough": {"params": "steps=3,rounds=2,cache=8", "workers": 16, "timeout": 7200}},
        {"pkg": "kv", "dir": "kv", "entry": "VerifH_C09_kv_history", "tag": "-faults",
         "quick": {"params": "steps=3,faults=1", "workers": 16, "timeout": 1200},
         "thorough": {"params": "steps=4,faults=1,maxfault=24", "workers": 16, "timeout": 6000}},
        {"pkg": "kv", "dir": "kv", "entry": "VerifH_C09_kv_history",
         "quick": {"params": "steps=5", "workers": 16, "timeout": 1200},
         "thorough": {"params": "steps=6", "workers": 16, "timeout": 6000}},
        {"pkg": ".", "dir": "s3db", "entry": "VerifH_C04_vacuum", "quick": {"workers": 16, "timeout": 900}},
    ],
    "bounds": {"quick": "kv level: 5 committed steps from {Set k1, Set k2, physical removal of k2, continue through a handle created later} with symbolic creation times and cutoff (histories that return to an earlier content in a kept, non-current version); crash index inside vacuum (C04's vacuum harness); histories of 3 single-statement transactions over two keys from {insert k1, insert k2, delete k1, delete k2, update k1, continue-through-new-handle}, each committed as its own version; cutoff symbolic over the whole time range",
               "thorough": "4 transactions"},
    "outside": "crash inside vacuum is covered by C04's model only for commit; histories longer than the bound",
    "assumptions": [TIME_RANGE],
}
PROPS["C10"] = {
    "harnesses": [
        {"pkg": ".", "dir": "s3db", "entry": "VerifH_C10_rowside", "quick": {"workers": 8, "timeout": 900}},
        {"pkg": ".", "dir": "s3db", "entry": "VerifH_C10_marker_wins", "quick": {"workers": 8, "timeout": 900}},
        {"pkg": ".", "dir": "s3db", "entry": "VerifH_C10_reclaim", "reach": ["end", "retried"], "quick": {"workers": 16, "timeout": 900}},
        {"pkg": "kv", "dir": "kv", "entry": "VerifH_C09_kv_history",
         "quick": {"params": "steps=5", "workers": 16, "timeout": 1200},
         "thorough": {"params": "steps=6", "workers": 16, "timeout": 6000}},
    ],
    "bounds": "version side: kv-level histories of 5 committed steps with symbolic creation times and cutoff (superseded-before-cutoff gone, superseded-after kept, second run changes nothing); reclaim: 3 table shapes, one storage fault at a symbolic request of vacuum; row side: one entry in arbitrary state (deleted flag, modification time, delete offset, cutoff all symbolic over the time range) next to one live row; marker-wins: insert/delete/older-insert times symbolic",
    "outside": "histories longer than the bounds",
    "assumptions": [TIME_RANGE],
}

PROPS["C05"] = {
    "harnesses": [
        {"pkg": ".", "dir": "s3db", "entry": "VerifH_C05_txn", "reach": ["end", "commit-failed"],
         "quick": {"params": "maxstmts=2", "workers": 16, "timeout": 900},
         "thorough": {"params": "maxstmts=3", "workers": 16, "timeout": 3000}},
        {"pkg": "sqlite", "dir": "sqlite", "entry": "VerifH_C15_conn", "extra": [("s3db_export", ".")], "no_native": True,
         "quick": {"params": "steps=3,twotables=1", "workers": 16, "timeout": 1800},
         "thorough": {"params": "steps=4,twotables=1", "workers": 16, "timeout": 7200}},
    ],
    "bounds": {"quick": "sqlite layer: 3 connection-level operations from {set/clear write_time, set/clear deadline, BEGIN, write statement (optionally also writing a second table), COMMIT, ROLLBACK} against ghost state (one write time per transaction, nothing left behind); table of 4 committed keys (entries_per_node 2, depth 2); BEGIN, 1..2 statements from {insert fresh, insert duplicate, update, delete, insert growing the tree}, then ROLLBACK | COMMIT | COMMIT failing at a symbolic storage request followed by xRollback",
               "thorough": "1..3 statements"},
    "outside": "SQLite's statement journal; a failing statement is modelled as SQLite does it (the statement changed nothing)",
    "assumptions": [TIME_RANGE],
}

PROPS["C17"] = {
    "harnesses": [
        {"pkg": "kv", "dir": "kv", "entry": "VerifH_C17_join", "quick": {"workers": 8, "timeout": 900}},
        {"pkg": "kv", "dir": "kv", "entry": "VerifH_C17_set",
         "quick": {"params": "ops=3", "workers": 16, "timeout": 900},
         "thorough": {"params": "ops=4", "workers": 16, "timeout": 3000}},
        {"pkg": "kv", "dir": "kv", "entry": "VerifH_C17_merge", "quick": {"workers": 16, "timeout": 900}},
    ],
    "bounds": {"quick": "join laws over three entries with symbolic times/tombstones; 3 Set/Tombstone operations on one key with symbolic distinct times in the three merge modes, commit and re-open; two writers + base merged by a third open, TraceHistory",
               "thorough": "4 operations"},
    "outside": "gob/JSON byte formats (opaque codec); Diff is covered through s3db_changes (C12)",
    "assumptions": [TIME_RANGE, "distinct times per key (the property's precondition)"],
}

PROPS["C06"] = {
    "harnesses": [
        {"pkg": ".", "dir": "s3db", "entry": "VerifH_C06_scan",
         "quick": {"params": "keys=3,constraints=1,maxlayer=1,nulls=1,reopen=0,dels=2,orders=3", "workers": 16, "timeout": 1200},
         },
        {"pkg": "sqlite", "dir": "sqlite", "entry": "VerifH_C06_sqlite_scan", "extra": [("s3db_export", ".")], "no_native": True,
         "quick": {"params": "keys=3,constraints=1,leadnonkey=1", "workers": 16, "timeout": 1800},
         },
        {"pkg": ".", "dir": "s3db", "entry": "VerifH_C20_notnull", "quick": {"workers": 4, "timeout": 600}},
        {"pkg": ".", "dir": "s3db", "entry": "VerifH_C20_rowid", "no_native": True, "quick": {"workers": 4, "timeout": 600}},
        {"pkg": ".", "dir": "s3db", "entry": "VerifH_C06_txn_same_time",
         "quick": {"params": "stmts=2", "workers": 8, "timeout": 600}},
        {"pkg": ".", "dir": "s3db", "entry": "VerifH_C06_scan", "tag": "-empty-table",
         "quick": {"params": "keys=0,constraints=2,maxlayer=1,nulls=1,reopen=0,dels=1,orders=3", "workers": 4, "timeout": 600}},
        {"pkg": ".", "dir": "s3db", "entry": "VerifH_C06_scan", "tag": "-2cons",
         "quick": {"params": "keys=2,constraints=2,maxlayer=1,nulls=0,reopen=0,dels=1,orders=3", "workers": 16, "timeout": 1200}},
    ],
    "bounds": {"quick": "3 symbolic INT keys (full int64) with uninterpreted layers 0..2 (entries_per_node 2: every tree shape of height <= 2), optionally one deleted row, optionally commit + re-open; 0..1 key constraints from {=,<,<=,>=,>} with symbolic INT or NULL operand; ORDER BY none/key asc/key desc/non-key",
               "thorough": "the quick bound (a deeper one - two constraints on three keys with layers 0..2, four keys at the sqlite layer - did not finish its validation run on the final tree in the time available and is therefore not registered)"},
    "outside": "SQLite's planner/VM (LIMIT, aggregates, IN expansion, affinity), cgo value conversion; TEXT/BLOB/REAL keys in scans",
    "assumptions": [TIME_RANGE, "SQLite re-checks every constraint on every row (ConstraintUsage.Omit is never set) and passes NULL operands to xFilter"],
}

PROPS["C11"] = {
    "harnesses": [
        {"pkg": ".", "dir": "s3db", "entry": "VerifH_C04_commit",
         "quick": {"params": "maxstmts=1", "workers": 16, "timeout": 900}},
        {"pkg": ".", "dir": "s3db", "entry": "VerifH_C11_versions",
         "quick": {"params": "steps=3", "workers": 16, "timeout": 1200},
         "thorough": {"params": "steps=4", "workers": 16, "timeout": 6000}},
        {"pkg": ".", "dir": "s3db", "entry": "VerifH_C11_versions", "tag": "-faults",
         "quick": {"params": "steps=2,faults=1", "workers": 16, "timeout": 1200},
         "thorough": {"params": "steps=3,faults=1", "workers": 16, "timeout": 6000}},
    ],
    "bounds": {"quick": "two writers on one bucket, 3 steps from {insert+commit, update+commit, empty commit, refresh (re-open), read-only open by a third party}; every recorded version re-read at the end",
               "thorough": "4 steps"},
    "outside": "hash collisions (names are an injective function of content); vacuum between taking and re-reading a version (C09)",
    "assumptions": [TIME_RANGE],
}

PROPS["C14"] = {
    "harnesses": [
        {"pkg": ".", "dir": "s3db", "entry": "VerifH_C14_faults", "reach": ["end", "retried", "wrote-after-vacuum"],
         "quick": {"params": "kinds=1", "workers": 16, "timeout": 1800},
         "thorough": {"params": "kinds=2", "workers": 16, "timeout": 5000}},
        {"pkg": "kv", "dir": "kv", "entry": "VerifH_C14_kv_commit_retry", "quick": {"workers": 4, "timeout": 600}},
        {"pkg": "sqlite", "dir": "sqlite", "entry": "VerifH_C14_sqlite", "extra": [("s3db_export", ".")], "no_native": True,
         "quick": {"workers": 16, "timeout": 1800}},
    ],
    "bounds": "8 scenarios {read-only open+scan, writable open+scan, open+insert+commit+scan, range scan, vacuum+scan (also after a history in which a row came and went, so that the vacuum returns the depth-2 tree to the content of its first version), descending scan below a bound above every key, begin+insert+commit with rollback and re-run of the transaction when the commit fails, open+UPDATE+commit+scan}; after a failed writable open every recorded finalizer is run (a garbage collection must find nothing to object to) x {one version, two unmerged versions} on a depth-2 table; fault position symbolic over every request of the scenario, kind (transport error | deadline) and persistence (single | persistent) symbolic",
    "outside": "the AWS SDK's own retry loop and wall-clock behaviour; s3db_changes under faults (C12)",
    "assumptions": [TIME_RANGE, "a fault is an error returned by the object store for the request (transport error or expired deadline); the request has no effect"],
}

PROPS["C02"] = {
    "harnesses": [
        {"pkg": ".", "dir": "s3db", "entry": "VerifH_C02_history",
         "quick": {"params": "stmts=3,writers=2", "workers": 16, "timeout": 1200},
         },
        {"pkg": ".", "dir": "s3db", "entry": "VerifH_C02_history", "tag": "-three-writers", "thorough_only": True,
         "quick": {"params": "stmts=3,writers=3,merger=1,quiesce=0,nulls=0,own=1,firstins=1,extra=0", "workers": 16, "timeout": 3600}},
        {"pkg": ".", "dir": "s3db", "entry": "VerifH_C02_history", "tag": "-upd-upd-del",
         "quick": {"params": "stmts=4,writers=2,shape=1,nulls=0", "workers": 16, "timeout": 1200}},
        {"pkg": ".", "dir": "s3db", "entry": "VerifH_C02_history", "tag": "-ins-ins-upd-del",
         "quick": {"params": "stmts=4,writers=2,shape=3,nulls=0", "workers": 16, "timeout": 1200}},
        {"pkg": ".", "dir": "s3db", "entry": "VerifH_C02_history", "tag": "-upd-del-ins",
         "quick": {"params": "stmts=4,writers=2,shape=2,nulls=0", "workers": 16, "timeout": 1200}},
        {"pkg": "sqlite", "dir": "sqlite", "entry": "VerifH_C02_sql_update", "extra": [("s3db_export", ".")], "no_native": True,
         "quick": {"workers": 4, "timeout": 600}},
        {"pkg": ".", "dir": "s3db", "entry": "VerifH_selfcheck_mergerows", "quick": {"workers": 1, "timeout": 300, "validate": 4}},
    ],
    "bounds": {"quick": "the repository's own MergeRows/toSQLiteValue/sort-order unit-test cases with the clock symbolic (translator validation); one key, two non-key columns, 3 statements (kind, assigned columns, write time and values symbolic; distinct write times), 2 writers, one optional commit+refresh point, every merge order at the final open",
               "thorough": "the quick bound plus 3 statements over 3 writers with third-party merges and own rows (4 unrestricted statements were run clean on an earlier tree but not re-validated on the final one, so they are not registered)"},
    "outside": "more than 2 columns, more than 4 statements per key",
    "assumptions": [TIME_RANGE, "SQLite passes every column to xUpdate on INSERT; UPDATE/DELETE reach the table only for rows visible to the connection"],
}

PROPS["C01"] = {
    "harnesses": [
        {"pkg": ".", "dir": "s3db", "entry": "VerifH_C02_history",
         "quick": {"params": "stmts=3,writers=3,merger=1,quiesce=0,nulls=0,own=1,firstins=1,extra=0", "workers": 16, "timeout": 1800},
         },
        {"pkg": ".", "dir": "s3db", "entry": "VerifH_C02_history", "tag": "-quiescence",
         "quick": {"params": "stmts=2,writers=3,merger=1,quiesce=1,nulls=0,own=0,firstins=1", "workers": 16, "timeout": 1800},
         },
    ],
    "bounds": {"quick": "one key, 3 symbolic statements over 3 writers that started from the same table; one optional intermediate point where either everybody commits and refreshes or a third party merges the current versions into an intermediate version; every permutation of the version list at every open (symbolic shuffle); then a merging open and a quiescent re-open",
               "thorough": "the quick bound (deeper ones did not finish their validation run on the final tree in the time available and are therefore not registered)"},
    "outside": "more than one key per history (tree-level diff is exercised by C16/C17), more than 4 statements",
    "assumptions": [TIME_RANGE, "distinct write times on the row (the property's precondition)", "the expected row is the documented outcome (C02's oracle), so equal results for all merge orders and groupings follow from equality with it"],
}

PROPS["C15"] = {
    "harnesses": [
        {"pkg": ".", "dir": "s3db", "entry": "VerifH_C02_history",
         "quick": {"params": "stmts=2,writers=2,retry=1,nulls=0", "workers": 16, "timeout": 1800},
         "thorough": {"params": "stmts=3,writers=2,retry=1,nulls=0", "workers": 16, "timeout": 14000}},
        {"pkg": ".", "dir": "s3db", "entry": "VerifH_C02_history", "tag": "-ties",
         "quick": {"params": "stmts=2,writers=2,retry=1,nulls=0,ties=1", "workers": 16, "timeout": 1800},
         "thorough": {"params": "stmts=3,writers=2,retry=1,nulls=0,ties=1", "workers": 16, "timeout": 14000}},
        {"pkg": ".", "dir": "s3db", "entry": "VerifH_C02_history", "tag": "-ties-upd-upd",
         "quick": {"params": "stmts=3,writers=1,retry=1,nulls=0,ties=1,shape=1,extra=0", "workers": 16, "timeout": 1800},
         "thorough": {"params": "stmts=3,writers=2,retry=1,nulls=0,ties=1,shape=1,extra=0", "workers": 16, "timeout": 7200}},
        {"pkg": ".", "dir": "s3db", "entry": "VerifH_C02_history", "tag": "-upd-upd-del",
         "quick": {"params": "stmts=4,writers=2,shape=1,nulls=0", "workers": 16, "timeout": 1200}},
        {"pkg": "sqlite", "dir": "sqlite", "entry": "VerifH_C15_failed_begin", "extra": [("s3db_export", ".")], "no_native": True, "reach": ["end", "begin-refused"],
         "quick": {"workers": 2, "timeout": 600}},
        {"pkg": "sqlite", "dir": "sqlite", "entry": "VerifH_C15_conn", "extra": [("s3db_export", ".")], "no_native": True,
         "quick": {"params": "steps=4", "workers": 16, "timeout": 1800},
         "thorough": {"params": "steps=5", "workers": 16, "timeout": 7200}},
    ],
    "bounds": {"quick": "2 symbolic statements on one key over 2 writers plus a byte-identical retry (same write_time and values) of either of them, re-executed after any later statement on any writer; write times arbitrary (including decreasing); merged row compared with the documented outcome",
               "thorough": "3 statements + retry"},
    "outside": "the s3db_conn attribute handling (sqlite layer) until the sqlite harness is built; time.Parse",
    "assumptions": [TIME_RANGE],
}

PROPS["C12"] = {
    "harnesses": [
        {"pkg": "sqlite", "dir": "sqlite", "entry": "VerifH_C12_changes", "extra": [("s3db_export", ".")], "no_native": True,
         "quick": {"params": "steps=3,faults=0", "workers": 16, "timeout": 1800},
         "thorough": {"params": "steps=3,faults=1", "workers": 16, "timeout": 7200}},
        {"pkg": "sqlite", "dir": "sqlite", "entry": "VerifH_C12_to_current", "extra": [("s3db_export", ".")], "no_native": True, "reach": ["end", "queried"],
         "quick": {"params": "steps=3", "workers": 16, "timeout": 1800},
         "thorough": {"params": "steps=4", "workers": 16, "timeout": 7200}},
        {"pkg": "sqlite", "dir": "sqlite", "entry": "VerifH_C12_to_current", "tag": "-faults", "extra": [("s3db_export", ".")], "no_native": True,
         "quick": {"params": "steps=2,faults=1", "workers": 16, "timeout": 1800},
         "thorough": {"params": "steps=3,faults=1", "workers": 16, "timeout": 7200}},
        {"pkg": "sqlite", "dir": "sqlite", "entry": "VerifH_C12_changes", "tag": "-faults", "extra": [("s3db_export", ".")], "no_native": True,
         "quick": {"params": "steps=2,faults=1,damage=0,refilter=0", "workers": 16, "timeout": 1800}, "quick_only": True},
        {"pkg": "sqlite", "dir": "sqlite", "entry": "VerifH_C12_changes", "tag": "-two-writers", "extra": [("s3db_export", ".")], "no_native": True,
         "quick": {"params": "steps=2,faults=0,writers=2,damage=0", "workers": 16, "timeout": 1800},
         "thorough": {"params": "steps=3,faults=0,writers=2,damage=0", "workers": 16, "timeout": 7200}},
    ],
    "bounds": {"quick": "single writer, 3 committed single-statement transactions over keys {1,2} from {insert, update, delete} with symbolic increasing write times; every ordered pair of the 3 versions; the ChangesTable/ChangesCursor protocol (Open, Filter, Eof, Column, Next) against the rows recorded when each version was taken",
               "thorough": "plus one symbolic storage fault (single or persistent) while the diff runs"},
    "outside": "argument parsing of CREATE VIRTUAL TABLE ... USING s3db_changes (C20 family); merges of two writers inside a diffed version",
    "assumptions": [TIME_RANGE, "engine-only: harnesses of package sqlite cannot be replayed natively (a sqlite.Value only exists inside a running SQLite); counterexamples are reported without native confirmation"],
}

PROPS["C03"] = {
    "harnesses": [
        {"pkg": ".", "dir": "s3db", "entry": "VerifH_C03_paged_list", "quick": {"workers": 4, "timeout": 600}},
        {"pkg": ".", "dir": "s3db", "entry": "VerifH_C03_open_vs_commit",
         "quick": {"params": "preempt=2", "workers": 16, "timeout": 1800},
         "thorough": {"params": "preempt=4", "workers": 16, "timeout": 7200}},
        {"pkg": ".", "dir": "s3db", "entry": "VerifH_C03_two_mergers",
         "quick": {"params": "preempt=2", "workers": 16, "timeout": 1800},
         "thorough": {"params": "preempt=3", "workers": 16, "timeout": 7200}},
    ],
    "bounds": "all interleavings with at most 2 (quick) | 4 and 3 (thorough) preemptive context switches, at object-store-request granularity, of (1) one client committing a row on top of v0 and one client opening (read-only | writable) and scanning, (2) two clients opening writable on two unmerged versions; followed by sequential later opens",
    "outside": "LIST pagination races (sequential pagination is covered), eventually consistent stores (the stub is linearizable per request), more than 2 concurrent clients, more than one commit per client",
    "assumptions": [TIME_RANGE, "a client's internal goroutines (mast flush workers) run in a fixed order; only the order of requests between clients is explored", "engine-only: schedules are not replayed natively"],
}

PROPS["C08"] = {
    "harnesses": [
        {"pkg": "sqlite", "dir": "sqlite", "entry": "VerifH_C08_roundtrip", "extra": [("s3db_export", ".")], "no_native": True, "reach": ["end", "refused"],
         "quick": {"params": "maxlen=2", "workers": 16, "timeout": 1200},
         "thorough": {"params": "maxlen=4", "workers": 16, "timeout": 3600}},
        {"pkg": ".", "dir": "s3db", "entry": "VerifH_selfcheck_utf8", "reach": ["end", "invalid"],
         "quick": {"params": "maxlen=2", "workers": 16, "timeout": 600, "validate": 12, "samples": 12},
         "thorough": {"params": "maxlen=4", "workers": 16, "timeout": 3600, "validate": 24, "samples": 24}},
        {"pkg": "sqlite", "dir": "sqlite", "entry": "VerifH_C08_update", "extra": [("s3db_export", ".")], "no_native": True,
         "quick": {"workers": 16, "timeout": 1200}},
    ],
    "bounds": {"quick": "one value in key or non-key position: any int64, any non-NaN float64 bit pattern (incl. -0.0, infinities), TEXT/BLOB of 0..2 symbolic bytes (every byte string, valid UTF-8 or not: UTF-8 decoding is symbolic), NULL; written through the sqlite layer, committed, read back by the writer and by another connection after re-open; UPDATE of a stored value by a value of every storage class (one symbolic byte of TEXT/BLOB)",
               "thorough": "TEXT/BLOB 0..4 bytes"},
    "outside": "protobuf wire encoding (opaque codec with proto3 presence rules and the UTF-8 validity check of string fields), cgo marshalling; merge and vacuum fidelity are covered by C02's value comparison and C16's codec harness",
    "assumptions": [TIME_RANGE, "riyazali's ResultText passes a NULL pointer for the empty string (modelled: SQLite then returns NULL)", "engine-only harness (package sqlite)"],
}

PROPS["C20"] = {
    "harnesses": [
        {"pkg": ".", "dir": "s3db", "entry": "VerifH_C20_args", "no_native": True, "reach": ["end", "accepted"],
         "quick": {"params": "maxargs=2,maxval=1", "workers": 16, "timeout": 1200},
         "thorough": {"params": "maxargs=3,maxval=2", "workers": 16, "timeout": 6000}},
        {"pkg": ".", "dir": "s3db", "entry": "VerifH_C20_args", "tag": "-after-columns", "no_native": True, "reach": ["end", "accepted"],
         "quick": {"params": "maxargs=2,maxval=1,withcolumns=1", "workers": 16, "timeout": 1200}, "quick_only": True},
        {"pkg": ".", "dir": "s3db", "entry": "VerifH_C20_schema", "no_native": True, "reach": ["end", "accepted"],
         "quick": {"workers": 16, "timeout": 1200}},
        {"pkg": ".", "dir": "s3db", "entry": "VerifH_C20_notnull", "quick": {"workers": 4, "timeout": 600}},
        {"pkg": ".", "dir": "s3db", "entry": "VerifH_C20_rowid", "no_native": True, "quick": {"workers": 4, "timeout": 600}},
        {"pkg": "sqlite", "dir": "sqlite", "entry": "VerifH_C20_connect", "extra": [("s3db_export", ".")], "no_native": True,
         "quick": {"workers": 4, "timeout": 600}},
    ],
    "bounds": {"quick": "sqlite layer: Create/Connect with a declaration that SQLite accepts or rejects; NOT NULL flags x NULL/non-NULL values on INSERT and UPDATE; New: 1..2 arguments, option name from the seven documented ones plus misspelt/empty/upper-case ones, with or without '=', value an arbitrary byte string of 0..1 bytes; convertSchema, OpenKV and the unquoting parser stubbed nondeterministically. convertSchema: parsed schemas of 1..3 columns (names from {a,b,c}, type / NOT NULL / UNIQUE / DEFAULT flags) and a primary-key list of 0..2 names",
               "thorough": "1..3 arguments, values 0..2 bytes"},
    "outside": "the regexp-combinator grammar (sql.Schema, UnquoteAll: quoting of names and values) and how SQLite parses the declared CREATE TABLE text; NOT NULL enforcement is a C06 matter",
    "assumptions": ["engine-only: the stubs cannot be installed natively"],
}

PROPS["C19"] = {
    "harnesses": [
        {"pkg": ".", "dir": "s3db", "entry": "VerifH_C19_registry", "no_native": True,
         "quick": {"params": "preempt=2,schedlocks=1,schedglobals=1", "workers": 16, "timeout": 1800},
         "thorough": {"params": "preempt=4,schedlocks=1,schedglobals=1", "workers": 16, "timeout": 7200}},
        {"pkg": "sqlite", "dir": "sqlite", "entry": "VerifH_C19_conn_isolation", "extra": [("s3db_export", ".")], "no_native": True,
         "quick": {"params": "steps=3", "workers": 16, "timeout": 1800}},
    ],
    "bounds": {"quick": "two threads each running New (in-memory bucket, so OpenKV's lazy creation runs) -> GetTable -> Disconnect with equal or distinct table names; scheduling points at every Lock, Unlock and access to the guarded package variables (tables, inMemoryS3, inMemoryBucket); at most 2 preemptive switches. Two connections: 3 operations on one never change the other's write_time/deadline",
               "thorough": "at most 4 preemptive switches"},
    "outside": "general data-race freedom under the Go memory model (the race detector's job, a different technique), SQLite's and cgo's threads, concurrency inside one table",
    "assumptions": ["engine-only (schedules are not replayed natively)"],
}

PROPS["C18"] = {
    "harnesses": [
        {"pkg": "kv", "dir": "kv", "entry": "VerifH_C18_roundtrip",
         "quick": {"params": "alllengths=0", "workers": 14, "timeout": 1200},
         "thorough": {"params": "alllengths=1", "workers": 16, "timeout": 3600}},
        {"pkg": "kv", "dir": "kv", "entry": "VerifH_C18_legacy", "reach": ["end", "legacy-readable"],
         "quick": {"params": "alllengths=0", "workers": 14, "timeout": 1200},
         "thorough": {"params": "alllengths=1", "workers": 16, "timeout": 3600}},
        {"pkg": "kv", "dir": "kv", "entry": "VerifH_C18_arbitrary", "no_native": True, "reach": ["end", "accepted"],
         "quick": {"params": "maxbuf=72", "workers": 16, "timeout": 1200}},
        {"pkg": "kv", "dir": "kv", "entry": "VerifH_C18_passphrase", "no_native": True, "quick": {"workers": 4, "timeout": 600}},
        {"pkg": "kv", "dir": "kv", "entry": "VerifH_C18_wrapping",
         "quick": {"workers": 1, "timeout": 600}},
    ],
    "bounds": {"quick": "plaintext lengths {0,1,15,16,17,31,32,33,47,48,63,64,65,72} with symbolic bytes and a symbolic 32-byte key; arbitrary ciphertext buffers of every length 0..72; a one-key table with a tagging encryptor",
               "thorough": "every plaintext length 0..72"},
    "outside": "confidentiality and unforgeability (cryptographic assumptions: the primitives are uninterpreted functions with their algebraic contracts only); internals of argon2/blake2b/salsa20/poly1305; a foreign box that secretbox.Open accepts is not excluded by the algebra",
    "assumptions": ["secretbox.Open(Seal(m,n,k),n,k)=(m,true); XORKeyStream out[i]=in[i] xor KS_i(nonce,key) restarting at offset 0 per call; poly1305.Verify(mac,c,k) <=> mac=Sum(c,k); blake2b/HSalsa20/argon2 deterministic functions of their inputs",
                    "counterexamples and sample paths are replayed natively against the real primitives (golang.org/x/crypto)"],
}

# Properties not (yet) claimed, each with the reason.  Kept current by hand.
NOT_APPLICABLE = {
    "C%02d" % i: "check not built yet in this session (breadth-first build order, DESIGN §9); no claim is made" for i in range(1, 21)
}
