"""Per-property check configuration: which harness entries run, with which
bounds per tier.  Bounds registered here were run clean (no inconclusive path,
no solver unknown on a verdict query) on the unchanged tree."""

TIME_RANGE = "all instants are in (0, 2^62) ns since the Unix epoch (no time.Add/Sub saturation; years < 2116)"

PROPS = {
    "C07": {
        "harnesses": [
            {"pkg": ".", "dir": "s3db", "entry": "VerifH_C07_pair",
             "asserts": ["antisymmetric", "matches-sqlite", "equal-only-for-equal-values"],
             "quick": {"params": "maxlen=2", "workers": 16, "timeout": 900, "assert_ms": 300000},
             "thorough": {"params": "maxlen=3", "workers": 16, "timeout": 3000, "assert_ms": 600000}},
            {"pkg": ".", "dir": "s3db", "entry": "VerifH_C07_layer",
             "quick": {"params": "bf=2", "workers": 8, "timeout": 600},
             "thorough": {"params": "bf=2", "workers": 16, "timeout": 1800}},
            {"pkg": ".", "dir": "s3db", "entry": "VerifH_C07_null",
             "quick": {"workers": 1}},
            {"pkg": ".", "dir": "s3db", "entry": "VerifH_C07_triple", "thorough_only": True, "reach": ["end", "chain"],
             "thorough": {"params": "maxlen=1,classes=4", "workers": 16, "timeout": 5000, "assert_ms": 600000}},
        ],
        "bounds": {"quick": "pairs of keys: INT any int64, REAL any non-NaN float64, TEXT/BLOB 0..2 symbolic bytes",
                   "thorough": "pairs: TEXT/BLOB 0..3 bytes; triples (transitivity): TEXT/BLOB 0..1 bytes, numbers full width"},
        "outside": "text/blob longer than the bound (same per-byte step); NaN keys (SQLite stores NaN as NULL)",
        "assumptions": ["SQLite reference comparator transcribed from sqlite3MemCompare/sqlite3IntFloatCompare (the non-long-double branch)",
                        "layer hash crc64 modelled as an uninterpreted function of the bytes handed to it"],
    },
}

PROPS["C16"] = {
    "harnesses": [
        {"pkg": ".", "dir": "s3db", "entry": "VerifH_C16_codec",
         "quick": {"workers": 8, "timeout": 600}},
        {"pkg": ".", "dir": "s3db", "entry": "VerifH_C16_fresh",
         "quick": {"params": "keys=3,commits=2,maxlayer=2", "workers": 16, "timeout": 900, "samples": 3, "validate": 4},
         "thorough": {"params": "keys=4,commits=2,maxlayer=2", "workers": 16, "timeout": 3000}},
    ],
    "bounds": {"quick": "3 symbolic INT keys (full int64), entries_per_node 2, layers 0..2 (uninterpreted), 2 commits",
               "thorough": "4 keys"},
    "outside": "protobuf wire bytes (opaque codec with proto3 presence rules)",
    "assumptions": [TIME_RANGE],
}

# Properties not (yet) claimed, each with the reason.  Kept current by hand.
NOT_APPLICABLE = {
    "C%02d" % i: "check not built yet in this session (breadth-first build order, DESIGN §9); no claim is made" for i in range(1, 21)
}
