package s3db

// Overlaid into package s3db when a harness of package sqlite (mod) runs:
// builds a table the way New does after parsing its arguments (the schema is
// given directly, the store is opened through the real OpenKV).

import "context"

func VerifNewTable(ctx context.Context, name string, opts S3Options) (*VirtualTable, error) {
	table := &VirtualTable{Name: name, S3Options: opts}
	table.KeyCol = 0
	table.ColumnNameByIndex = map[int]string{0: "a", 1: "b", 2: "c"}
	table.ColumnIndexByName = map[string]int{"a": 0, "b": 1, "c": 2}
	table.SchemaString = "CREATE TABLE x(a PRIMARY KEY, b, c) WITHOUT ROWID"
	var err error
	table.Tree, err = OpenKV(ctx, table.S3Options, "s3db-rows")
	if err != nil {
		return nil, err
	}
	tableLock.Lock()
	defer tableLock.Unlock()
	tables[name] = table
	return table, nil
}
