package s3db

// Overlaid into package s3db when a harness of package sqlite (mod) runs:
// builds a table the way New does after parsing its arguments (the schema is
// given directly, the store is opened through the real OpenKV).

import "context"

// VerifKeyCol: position of the key column in tables made by VerifNewTable.
var VerifKeyCol = 0

func VerifNewTable(ctx context.Context, name string, opts S3Options) (*VirtualTable, error) {
	table := &VirtualTable{Name: name, S3Options: opts}
	// the key column "a" is declared at position VerifKeyCol (0 unless a
	// harness says otherwise); "b" and "c" take the other two positions in order
	table.KeyCol = VerifKeyCol
	names := []string{"b", "c"}
	table.ColumnNameByIndex = map[int]string{}
	table.ColumnIndexByName = map[string]int{}
	table.SchemaString = "CREATE TABLE x("
	for i, n := 0, 0; i < 3; i++ {
		name := "a"
		if i != VerifKeyCol {
			name = names[n]
			n++
		}
		table.ColumnNameByIndex[i] = name
		table.ColumnIndexByName[name] = i
		if i > 0 {
			table.SchemaString += ", "
		}
		table.SchemaString += name
		if i == VerifKeyCol {
			table.SchemaString += " PRIMARY KEY"
		}
	}
	table.SchemaString += ") WITHOUT ROWID"
	var err error
	table.Tree, err = OpenKV(ctx, table.S3Options, "s3db-rows")
	if err != nil {
		return nil, err
	}
	tableLock.Lock()
	defer tableLock.Unlock()
	tables[name] = table
	return table, nil
}
