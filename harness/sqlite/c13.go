package mod

// C13 / C14 at the sqlite layer: the maintenance functions and virtual tables
// on a read-only table; faults during refresh.

import (
	"go.riyazali.net/sqlite"

	"github.com/jrhy/s3db"
)

// vTwoVersions: two writers that started from the empty table each commit one row.
func vTwoVersions(bkt *vBucket) { vVersions(bkt, 2) }

func vVersions(bkt *vBucket, n int) {
	for w := 0; w < n; w++ {
		vVersionN(bkt, w)
	}
}

// vVersionN: writer w, starting from the empty table, commits row w+1 (and a
// row it deletes again); its objects are added to bkt as one more version.
func vVersionN(bkt *vBucket, w int) {
	{
		fb := vNewBucket()
		symS3Register(fb.client(10 + w))
		c := vConnect()
		vt, err := c.vTable("seed"+string(rune('0'+w)), false)
		if err != nil {
			panic(err)
		}
		if err := vt.Begin(); err != nil {
			panic(err)
		}
		if _, err := vt.Insert(symSQLInt(int64(w+1)), symSQLInt(int64(10*(w+1))), symSQLNull()); err != nil {
			panic(err)
		}
		// and a row that is already deleted again (a vacuum would have work to do)
		if _, err := vt.Insert(symSQLInt(int64(40+w)), symSQLInt(1), symSQLNull()); err != nil {
			panic(err)
		}
		if err := vt.Delete(symSQLInt(int64(40 + w))); err != nil {
			panic(err)
		}
		if err := vt.Sync(); err != nil {
			panic(err)
		}
		if err := vt.Commit(); err != nil {
			panic(err)
		}
		for k, v := range fb.objs {
			bkt.objs[k] = v
		}
	}
}

func vRefresh(c *vConn, table string) (failed bool) {
	agg := symSQLAggContext()
	c.refresh.Step(agg, symSQLText(table))
	c.refresh.Final(agg)
	k, _, _ := symSQLAggResult(agg)
	return k == rERROR
}

func vVersion(c *vConn, table string) (string, bool) {
	agg := symSQLAggContext()
	c.version.Step(agg, symSQLText(table))
	c.version.Final(agg)
	k, p, _ := symSQLAggResult(agg)
	if k != rTEXT {
		return "", false
	}
	return p.(string), true
}

// H13-sqlite: a read-only table over 0..2 unmerged versions; any sequence of
// scans, write attempts (with the xBegin/xSync/xCommit or xRollback calls
// SQLite makes around them), s3db_refresh, s3db_version, s3db_changes and
// s3db_vacuum issues no PUT and no DELETE and leaves the visible rows alone.
func VerifH_C13_sqlite() {
	bkt := vNewBucket()
	nv := symChoice("versions", 3)
	vVersions(bkt, nv)
	symS3Register(bkt.client(1))
	c := vConnect()
	vt, err := c.vTable("t", true)
	symAssert(err == nil, "readonly-table-ok")
	m0 := bkt.muts
	keys0, _, err := vScanAll(vt)
	symAssert(err == nil, "scan-ok")
	symAssert(len(keys0) == nv, "sees-all-versions")
	steps := symParam("steps", 2)
	grown := false
	ops := []int{0, 1, 2, 3, 4, 5, 6}
	if symParam("opset", 0) == 1 {
		// longer sequences over the transaction-shaped statements only
		ops = []int{0, 3, 4}
	}
	for i := 0; i < steps; i++ {
		switch ops[symChoice("op", len(ops))] {
		case 0: // INSERT: refused, SQLite rolls the statement back
			if vt.Begin() != nil {
				continue // an earlier BEGIN..COMMIT with a refused write left the table "in a transaction": still an error for the write
			}
			_, err := vt.Insert(symSQLInt(int64(50+i)), symSQLInt(1), symSQLNull())
			symAssert(err != nil, "insert-refused")
			symAssert(vt.Rollback() == nil, "rollback-ok")
		case 1: // UPDATE of an existing row
			if nv > 0 {
				if vt.Begin() != nil {
					continue
				}
				err := vt.Update(symSQLInt(1), symSQLNoChange(), symSQLInt(99), symSQLNoChange())
				symAssert(err != nil, "update-refused")
				symAssert(vt.Rollback() == nil, "rollback-ok")
			}
		case 2: // DELETE
			if nv > 0 {
				if vt.Begin() != nil {
					continue
				}
				symAssert(vt.Delete(symSQLInt(1)) != nil, "delete-refused")
				symAssert(vt.Rollback() == nil, "rollback-ok")
			}
		case 3: // BEGIN; a refused write; COMMIT (SQLite rolls back only the statement)
			if vt.Begin() == nil {
				_, err := vt.Insert(symSQLInt(int64(60+i)), symSQLInt(1), symSQLNull())
				symAssert(err != nil, "insert-refused")
				symAssert(vt.Sync() == nil, "sync-ok")
				symAssert(vt.Commit() == nil, "commit-ok")
			}
		case 4: // select s3db_refresh('t'), s3db_version('t'); possibly after another writer committed
			if symParam("grow", 1) == 1 && !grown && symChoice("another-writer-committed", 2) == 1 {
				vVersionN(bkt, 7)
				symS3Register(bkt.client(1))
				grown = true
			}
			failed := vRefresh(c, "t")
			vVersion(c, "t")
			// a refresh is the one statement that may change what is visible
			keys0, _, err = vScanAll(vt)
			symAssert(err == nil, "scan-after-refresh-ok")
			if grown && !failed {
				symAssert(len(keys0) == nv+1, "refresh-shows-the-other-writers-commit")
			}
			continue
		case 5: // select * from s3db_changes (from = what s3db_version gave | none, to omitted)
			ct := &ChangesTable{table: vt.common, module: c.changes}
			if symChoice("from-given", 2) == 1 {
				names, _ := vt.common.Tree.Root.Roots()
				ct.fromVer = names
			}
			cur, err := ct.Open()
			if err == nil {
				_ = cur.Filter(0, "")
				for n := 0; !cur.Eof() && n < 4; n++ {
					_ = cur.Next()
				}
			}
		case 6: // select * from s3db_vacuum('t', ...)
			vc := &VacuumCursor{module: c.vacuum}
			symAssert(vc.Filter(0, "", symSQLText("t"), symSQLText("@cut")) == nil, "vacuum-filter-ok")
			// refused or a no-op: either way it must not write (checked below)
		}
		keys, _, err := vScanAll(vt)
		symAssert(err == nil, "scan-after-op-ok")
		symAssert(symDeepEq(keys, keys0), "visible-rows-unchanged")
	}
	symAssert(bkt.muts == m0, "no-put-or-delete-issued")
	symReach("end")
}

// H14-sqlite: a storage fault during s3db_refresh (or a write statement)
// surfaces as an error and leaves the connection usable: the next statements
// do not panic, and once the fault is gone a refresh shows all committed data.
func VerifH_C14_sqlite() {
	bkt := vNewBucket()
	vTwoVersions(bkt)
	symS3Register(bkt.client(1))
	c := vConnect()
	vt, err := c.vTable("t", symChoice("readonly", 2) == 1)
	symAssert(err == nil, "table-ok")
	keys0, _, err := vScanAll(vt)
	symAssert(err == nil && len(keys0) == 2, "scan-ok")
	f := symInt("fault")
	symAssume(f >= 0)
	symAssume(f < 8)
	bkt.faultOn, bkt.faultAt, bkt.faultPersistent = true, bkt.reqs+f, symChoice("persistent", 2) == 1
	failed := vRefresh(c, "t")
	bkt.faultOn = false
	symObserve("refresh_failed", failed)
	// the same connection keeps working
	symAssert(s3db.GetTable("t") != nil && s3db.GetTable("t").Tree != nil, "table-still-usable-after-failed-refresh")
	keys, _, err := vScanAll(vt)
	symAssert(err == nil, "scan-after-fault-ok")
	symAssert(len(keys) == 2, "committed-rows-still-visible")
	symAssert(!vRefresh(c, "t"), "refresh-after-fault-clears-ok")
	keys, _, err = vScanAll(vt)
	symAssert(err == nil && len(keys) == 2, "all-committed-data-after-refresh")
	_, ok := vVersion(c, "t")
	symAssert(ok, "version-ok")
	symReach("end")
}

var _ = sqlite.SQLITE_OK
