package mod

// C05 / C15 / C19 — the connection's transaction, write_time and deadline handling.

import (
	"time"

	"go.riyazali.net/sqlite"
)

type vGhost struct {
	userWT  bool
	userDL  bool
	inTxn   bool
	txnTime int64
	hasTxnT bool
}

// H15b / H05b: sequences of connection-level operations from the initial
// state against ghost state: which write time and which deadline each
// statement runs under, what s3db_conn reads back, what is left behind
// outside a transaction.
func VerifH_C15_conn() {
	bkt := vNewBucket()
	symS3Register(bkt.client(1))
	c := vConnect()
	vt, err := c.vTable("t", false)
	symAssert(err == nil, "table-ok")
	vt2, err := c.vTable("t2", false)
	symAssert(err == nil, "table-ok")
	began2 := false
	sc := c.m.sc
	var g vGhost
	var atBegin1, atBegin2 []int64
	nextKey := int64(1)
	steps := symParam("steps", 4)
	for i := 0; i < steps; i++ {
		switch symChoice("op", 8) {
		case 0: // update s3db_conn set write_time='@wN'
			name := "@w" + string(rune('0'+i))
			symAssert(c.conn.Update(symSQLNull(), symSQLNoChange(), symSQLText(name)) == nil, "set-write-time-ok")
			g.userWT = true
			ctx := symSQLContext()
			symAssert((&ConnCursor{c.conn, false}).Column(ctx, 1) == nil, "read-attr-ok")
			k, p, _ := symSQLResult(ctx)
			symAssert(k == rTEXT && p.(string) == name, "write-time-reads-back")
		case 1: // clear write_time
			symAssert(c.conn.Update(symSQLNull(), symSQLNoChange(), symSQLNull()) == nil, "clear-write-time-ok")
			g.userWT = false
			ctx := symSQLContext()
			symAssert((&ConnCursor{c.conn, false}).Column(ctx, 1) == nil, "read-attr-ok")
			if !g.inTxn {
				k, _, _ := symSQLResult(ctx)
				symAssert(k == rNULL, "cleared-write-time-reads-null")
			}
		case 2: // set deadline
			name := "@d" + string(rune('0'+i))
			symAssert(c.conn.Update(symSQLNull(), symSQLText(name), symSQLNoChange()) == nil, "set-deadline-ok")
			g.userDL = true
			ctx := symSQLContext()
			symAssert((&ConnCursor{c.conn, false}).Column(ctx, 0) == nil, "read-attr-ok")
			k, p, _ := symSQLResult(ctx)
			symAssert(k == rTEXT && p.(string) == name, "deadline-reads-back")
		case 3: // clear deadline
			symAssert(c.conn.Update(symSQLNull(), symSQLNull(), symSQLNoChange()) == nil, "clear-deadline-ok")
			g.userDL = false
			ctx := symSQLContext()
			symAssert((&ConnCursor{c.conn, false}).Column(ctx, 0) == nil, "read-attr-ok")
			k, _, _ := symSQLResult(ctx)
			symAssert(k == rNULL, "cleared-deadline-reads-null")
		case 4: // BEGIN (xBegin reaches the table at the first write of the transaction)
			if g.inTxn {
				continue
			}
			symAssert(vt.Begin() == nil, "begin-ok")
			g.inTxn = true
			g.hasTxnT = false
			atBegin1, _, _ = vScanAll(vt)
			atBegin2, _, _ = vScanAll(vt2)
		case 5: // a write statement inside the transaction, or an autocommit statement
			auto := !g.inTxn
			if auto {
				symAssert(vt.Begin() == nil, "begin-ok")
				g.hasTxnT = false
			}
			wt, hasWT := vWriteTimeOf(sc.ctx)
			_, hasDL := vDeadlineOf(sc.ctx)
			symAssert(hasDL == g.userDL, "statement-runs-under-the-deadline-in-force")
			if g.userWT {
				symAssert(hasWT, "statement-carries-user-write-time")
				symAssert(wt == sc.writeTime.UnixNano(), "statement-carries-user-write-time")
			} else {
				symAssert(hasWT, "transaction-statement-has-a-fixed-write-time")
				if g.hasTxnT {
					symAssert(wt == g.txnTime, "one-write-time-per-transaction")
				} else {
					g.txnTime, g.hasTxnT = wt, true
				}
			}
			_, err := vt.Insert(symSQLInt(nextKey), symSQLInt(nextKey*10), symSQLNull())
			symAssert(err == nil, "insert-ok")
			nextKey++
			// the same statement stream also writes a second table of the connection:
			// xBegin reaches it at its first write inside the transaction
			if symParam("twotables", 1) == 1 && symChoice("second-table", 2) == 1 {
				if !began2 {
					symAssert(vt2.Begin() == nil, "begin-ok")
					began2 = true
				}
				wt2, has2 := vWriteTimeOf(sc.ctx)
				symAssert(has2 && wt2 == wt, "one-write-time-per-transaction-across-tables")
				_, err := vt2.Insert(symSQLInt(nextKey), symSQLInt(1), symSQLNull())
				symAssert(err == nil, "insert-ok")
				nextKey++
				// and back to the first table
				wt3, has3 := vWriteTimeOf(sc.ctx)
				symAssert(has3 && wt3 == wt, "one-write-time-per-transaction-across-tables")
			}
			if auto {
				symAssert(vt.Sync() == nil, "sync-ok")
				if began2 {
					symAssert(vt2.Sync() == nil, "sync-ok")
				}
				symAssert(vt.Commit() == nil, "commit-ok")
				if began2 {
					symAssert(vt2.Commit() == nil, "commit-ok")
					began2 = false
				}
			}
		case 6: // COMMIT
			if !g.inTxn {
				continue
			}
			symAssert(vt.Sync() == nil, "sync-ok")
			if began2 {
				symAssert(vt2.Sync() == nil, "sync-ok")
			}
			symAssert(vt.Commit() == nil, "commit-ok")
			if began2 {
				symAssert(vt2.Commit() == nil, "commit-ok")
				began2 = false
			}
			g.inTxn = false
		case 7: // ROLLBACK
			if !g.inTxn {
				continue
			}
			symAssert(vt.Rollback() == nil, "rollback-ok")
			if began2 {
				symAssert(vt2.Rollback() == nil, "rollback-ok")
				began2 = false
			}
			g.inTxn = false
			// ROLLBACK restores exactly the rows visible before BEGIN, in every table the transaction wrote
			now1, _, err1 := vScanAll(vt)
			now2, _, err2 := vScanAll(vt2)
			symAssert(err1 == nil && err2 == nil, "scan-after-rollback-ok")
			symAssert(symDeepEq(now1, atBegin1), "rollback-restores-first-table")
			symAssert(symDeepEq(now2, atBegin2), "rollback-restores-second-table")
		}
		// outside a transaction the connection carries a write time only if the user set one
		if !g.inTxn {
			_, hasWT := vWriteTimeOf(sc.ctx)
			symAssert(hasWT == g.userWT, "no-transaction-write-time-left-behind")
			ctx := symSQLContext()
			symAssert((&ConnCursor{c.conn, false}).Column(ctx, 1) == nil, "read-attr-ok")
			k, _, _ := symSQLResult(ctx)
			symAssert((k == rTEXT) == g.userWT, "write-time-attribute-matches-what-the-user-set")
		}
		_, hasDL := vDeadlineOf(sc.ctx)
		symAssert(hasDL == g.userDL, "deadline-in-force-iff-set")
	}
	symReach("end")
}

// H19b: two connections: nothing done on one changes the other's attributes.
func VerifH_C19_conn_isolation() {
	bkt := vNewBucket()
	symS3Register(bkt.client(1))
	c1 := vConnect()
	c2 := vConnect()
	symAssert(c1.m.sc != c2.m.sc, "connections-have-their-own-state")
	symAssert(c1.conn.sc == c1.m.sc && c1.changes.sc == c1.m.sc && c1.vacuum.sc == c1.m.sc && c1.refresh.sc == c1.m.sc && c1.version.sc == c1.m.sc, "one-state-per-connection")
	symAssert(c2.conn.sc == c2.m.sc, "one-state-per-connection")
	symAssert(c2.conn.Update(symSQLNull(), symSQLText("@d"), symSQLText("@w")) == nil, "set-attrs-ok")
	wt2, _ := vWriteTimeOf(c2.m.sc.ctx)
	dl2, _ := vDeadlineOf(c2.m.sc.ctx)
	vt1, err := c1.vTable("t1", false)
	symAssert(err == nil, "table-ok")
	steps := symParam("steps", 3)
	for i := 0; i < steps; i++ {
		switch symChoice("op", 6) {
		case 0:
			_ = c1.conn.Update(symSQLNull(), symSQLNoChange(), symSQLText("@x"))
		case 1:
			_ = c1.conn.Update(symSQLNull(), symSQLText("@y"), symSQLNull())
		case 2:
			_ = vt1.Begin()
		case 3:
			_ = vt1.Commit()
		case 4:
			_ = vt1.Rollback()
		case 5:
			_, _ = vt1.Insert(symSQLInt(int64(i+1)), symSQLInt(1), symSQLNull())
		}
		w, okw := vWriteTimeOf(c2.m.sc.ctx)
		d, okd := vDeadlineOf(c2.m.sc.ctx)
		symAssert(okw && w == wt2, "other-connection-write-time-untouched")
		symAssert(okd && d == dl2, "other-connection-deadline-untouched")
	}
	symReach("end")
}

var _ = sqlite.SQLITE_OK

// H15c: a statement whose xBegin is refused (SQLite then calls neither xSync,
// xCommit nor xRollback for that table) leaves nothing behind: the next
// statement of the connection, on another table, runs under its own time and
// not under the time of the refused one.  The refusal used here is the one a
// read-only table gives once BEGIN; <refused write>; COMMIT has run on it.
func VerifH_C15_failed_begin() {
	bkt := vNewBucket()
	vVersions(bkt, 1)
	symS3Register(bkt.client(1))
	c := vConnect()
	ro, err := c.vTable("ro", true)
	symAssert(err == nil, "table-ok")
	w, err := c.vTable("w", false)
	symAssert(err == nil, "table-ok")
	// BEGIN; INSERT INTO ro (refused); COMMIT
	symAssert(ro.Begin() == nil, "begin-ok")
	_, err = ro.Insert(symSQLInt(60), symSQLInt(1), symSQLNull())
	symAssert(err != nil, "insert-refused")
	symAssert(ro.Sync() == nil, "sync-ok")
	symAssert(ro.Commit() == nil, "commit-ok")
	_, has := vWriteTimeOf(c.m.sc.ctx)
	symAssert(!has, "no-transaction-write-time-left-behind")
	// a later write attempt on ro: its xBegin may be refused
	if ro.Begin() == nil {
		_, err = ro.Insert(symSQLInt(61), symSQLInt(1), symSQLNull())
		symAssert(err != nil, "insert-refused")
		symAssert(ro.Rollback() == nil, "rollback-ok")
	} else {
		symReach("begin-refused")
	}
	_, has = vWriteTimeOf(c.m.sc.ctx)
	symAssert(!has, "refused-begin-leaves-no-write-time-behind")
	// INSERT INTO w, some time later
	issued := time.Now().UnixNano()
	symAssert(w.Begin() == nil, "begin-ok")
	wt, has := vWriteTimeOf(c.m.sc.ctx)
	symAssert(has, "statement-has-a-write-time")
	symAssert(wt >= issued, "statement-is-stamped-no-earlier-than-it-was-issued")
	_, err = w.Insert(symSQLInt(70), symSQLInt(1), symSQLNull())
	symAssert(err == nil, "insert-ok")
	symAssert(w.Sync() == nil && w.Commit() == nil, "commit-ok")
	symReach("end")
}
