package mod

// C12 — s3db_changes reports exactly the rows that differ between two versions.

import "go.riyazali.net/sqlite"

type vVer struct {
	names []string
	keys  []int64
	bs    []int64
}

func vLookup(v vVer, k int64) (int64, bool) {
	for i := range v.keys {
		if v.keys[i] == k {
			return v.bs[i], true
		}
	}
	return 0, false
}

func VerifH_C12_changes() {
	bkt := vNewBucket()
	symS3Register(bkt.client(1))
	c := vConnect()
	vt, err := c.vTable("t", false)
	symAssert(err == nil, "table-ok")
	// optionally a second writer on the same bucket, on its own connection
	nw := symParam("writers", 1)
	conns := []*vConn{c}
	tabs := []*VirtualTable{vt}
	if nw == 2 {
		c2 := vConnect()
		vt2, err := c2.vTable("t-second-writer", false)
		symAssert(err == nil, "table-ok")
		conns, tabs = append(conns, c2), append(tabs, vt2)
	}
	steps := symParam("steps", 3)
	var vers []vVer
	for i := 0; i < steps; i++ {
		if nw == 2 {
			wi := symChoice("writer", 2)
			c, vt = conns[wi], tabs[wi]
			if symChoice("refresh-first", 2) == 1 {
				// the writer first merges what the other one committed
				name := "t"
				if wi == 1 {
					name = "t-second-writer"
				}
				symAssert(!vRefresh(c, name), "refresh-ok")
			}
		}
		t := "@t" + string(rune('0'+i))
		symAssert(c.conn.Update(symSQLNull(), symSQLNoChange(), symSQLText(t)) == nil, "set-write-time-ok")
		if i > 0 {
			// write times increase along the history (single writer, non-decreasing clock)
			a, _ := vWriteTimeOf(c.m.sc.ctx)
			symAssume(a > vPrevT)
		}
		vPrevT, _ = vWriteTimeOf(c.m.sc.ctx)
		symAssert(vt.Begin() == nil, "begin-ok")
		key := int64(1 + symChoice("key", 2))
		switch symChoice("stmt", 3) {
		case 0:
			_, err := vt.Insert(symSQLInt(key), symSQLInt(int64(10*(i+1))), symSQLNull())
			if err != nil {
				symAssert(err == sqlite.SQLITE_CONSTRAINT_PRIMARYKEY, "only-constraint-errors")
			}
		case 1:
			symAssert(vt.Update(symSQLInt(key), symSQLNoChange(), symSQLInt(int64(100*(i+1))), symSQLNoChange()) == nil, "update-ok")
		case 2:
			symAssert(vt.Delete(symSQLInt(key)) == nil, "delete-ok")
		}
		symAssert(vt.Sync() == nil, "sync-ok")
		symAssert(vt.Commit() == nil, "commit-ok")
		names, err := vt.common.Tree.Root.Roots()
		symAssert(err == nil, "roots-ok")
		keys, bs, err := vScanAll(vt)
		symAssert(err == nil, "scan-ok")
		vers = append(vers, vVer{names, keys, bs})
	}
	// an ordered pair of versions; "from" may also be the version of the still
	// empty table, for which s3db_version() returns '[]'
	ai := symChoice("from", steps+1)
	bi := symChoice("to", steps)
	var A vVer
	if ai == steps {
		A = vVer{names: []string{}}
	} else {
		A = vers[ai]
	}
	B := vers[bi]
	if (ai < steps && len(A.names) == 0) || len(B.names) == 0 {
		symReach("end")
		return
	}
	// optionally an object that one of the two versions needs is gone
	// (vacuumed, or not visible yet): the query must fail, not answer partially
	if symParam("damage", 1) == 1 && symChoice("damage", 2) == 1 {
		nodes := bkt.names("p/s3db-rows/node/")
		if len(nodes) > 0 {
			delete(bkt.objs, nodes[symChoice("which-node", len(nodes))])
			vC12Damaged = true
		}
	}
	// optionally one storage fault while the diff runs
	faulty := symParam("faults", 0) == 1 && symChoice("faulty", 2) == 1
	if faulty {
		f := symInt("fault")
		symAssume(f >= 0)
		symAssume(f < 12)
		bkt.faultOn, bkt.faultAt, bkt.faultPersistent = true, bkt.reqs+f, symChoice("persistent", 2) == 1
	}
	c, vt = conns[0], tabs[0]
	ct := &ChangesTable{table: vt.common, module: c.changes, fromVer: A.names, toVer: B.names}
	var gotK, gotB []int64
	failed := false
	cur, err := ct.Open()
	if err != nil {
		failed = true
	} else {
		// SQLite may filter one cursor several times (the inner side of a
		// join, a correlated subquery): every pass is a complete answer
		passes := 1
		if symParam("refilter", 1) == 1 && symChoice("refilter", 2) == 1 {
			passes = 2
		}
		// ... also when the pass before was given up after its first row
		// (LIMIT 1, EXISTS)
		abandon := passes == 2 && symChoice("abandon-first-pass", 2) == 1
		for pass := 0; pass < passes && !failed; pass++ {
			gotK, gotB = nil, nil
			if err := cur.Filter(0, ""); err != nil {
				failed = true
			}
			for n := 0; !failed && !cur.Eof(); n++ {
				if abandon && pass == 0 && n == 1 {
					break
				}
				symAssert(n <= 4, "changes-cursor-terminates")
				c0 := symSQLContext()
				err := cur.Column(c0, 0)
				if !faulty {
					symAssert(err == nil, "changed-row-is-readable")
				}
				if err != nil {
					failed = true
					break
				}
				k, p, _ := symSQLResult(c0)
				symAssert(k == rINT, "key-is-integer")
				c1 := symSQLContext()
				symAssert(cur.Column(c1, 1) == nil, "changed-row-is-readable")
				k1, p1, _ := symSQLResult(c1)
				gotK = append(gotK, p.(int64))
				if k1 == rINT {
					gotB = append(gotB, p1.(int64))
				} else {
					gotB = append(gotB, -1)
				}
				if err := cur.Next(); err != nil {
					failed = true
				}
			}
		}
	}
	bkt.faultOn = false
	if faulty && bkt.faultsInjected > 0 {
		// a query that could not read part of either version fails instead of
		// answering partially
		if !failed {
			vCheckChanges(A, B, gotK, gotB)
		}
		symReach("end")
		return
	}
	if vC12Damaged {
		// whatever it answers without an error must be the full answer
		if !failed {
			vCheckChanges(A, B, gotK, gotB)
		}
		vC12Damaged = false
		symReach("end")
		return
	}
	symAssert(!failed, "changes-query-succeeds")
	vCheckChanges(A, B, gotK, gotB)
	symReach("end")
}

var vC12Damaged bool

var vPrevT int64

func vCheckChanges(A, B vVer, gotK, gotB []int64) {
	// every returned row is visible in B with that value
	for i, k := range gotK {
		b, ok := vLookup(B, k)
		symAssert(ok, "returned-row-is-visible-in-to-version")
		symAssert(b == gotB[i], "returned-row-has-to-version-value")
	}
	// every row of B that is absent from A or differs from A is returned
	for i, k := range B.keys {
		a, inA := vLookup(A, k)
		if !inA || a != B.bs[i] {
			found := false
			for _, g := range gotK {
				if g == k {
					found = true
				}
			}
			symAssert(found, "changed-or-new-row-is-returned")
		}
	}
	// no row twice
	for i := range gotK {
		for j := 0; j < i; j++ {
			symAssert(gotK[i] != gotK[j], "no-row-returned-twice")
		}
	}
}

// vChangesScan runs one query over a changes table: Open, Filter, then the
// Eof/Column/Next loop.
func vChangesScan(ct *ChangesTable) (gotK, gotB []int64, ok bool) {
	cur, err := ct.Open()
	if err != nil {
		return nil, nil, false
	}
	if err := cur.Filter(0, ""); err != nil {
		return nil, nil, false
	}
	for n := 0; !cur.Eof(); n++ {
		symAssert(n <= 4, "changes-cursor-terminates")
		c0, c1 := symSQLContext(), symSQLContext()
		if cur.Column(c0, 0) != nil || cur.Column(c1, 1) != nil {
			return nil, nil, false
		}
		_, p, _ := symSQLResult(c0)
		k1, p1, _ := symSQLResult(c1)
		gotK = append(gotK, p.(int64))
		if k1 == rINT {
			gotB = append(gotB, p1.(int64))
		} else {
			gotB = append(gotB, -1)
		}
		if cur.Next() != nil {
			return nil, nil, false
		}
	}
	return gotK, gotB, true
}

// H12b: a changes table created without to= compares with the current
// version of the table, whatever it is when the query runs: the same changes
// table is queried again after every further commit of the connection.
func VerifH_C12_to_current() {
	bkt := vNewBucket()
	symS3Register(bkt.client(1))
	c := vConnect()
	vt, err := c.vTable("t", false)
	symAssert(err == nil, "table-ok")
	steps := symParam("steps", 3)
	var ct *ChangesTable
	var A vVer
	for i := 0; i < steps; i++ {
		t := "@t" + string(rune('0'+i))
		symAssert(c.conn.Update(symSQLNull(), symSQLNoChange(), symSQLText(t)) == nil, "set-write-time-ok")
		if i > 0 {
			a, _ := vWriteTimeOf(c.m.sc.ctx)
			symAssume(a > vPrevT)
		}
		vPrevT, _ = vWriteTimeOf(c.m.sc.ctx)
		symAssert(vt.Begin() == nil, "begin-ok")
		key := int64(1 + symChoice("key", 2))
		switch symChoice("stmt", 3) {
		case 0:
			_, err := vt.Insert(symSQLInt(key), symSQLInt(int64(10*(i+1))), symSQLNull())
			if err != nil {
				symAssert(err == sqlite.SQLITE_CONSTRAINT_PRIMARYKEY, "only-constraint-errors")
			}
		case 1:
			symAssert(vt.Update(symSQLInt(key), symSQLNoChange(), symSQLInt(int64(100*(i+1))), symSQLNoChange()) == nil, "update-ok")
		case 2:
			symAssert(vt.Delete(symSQLInt(key)) == nil, "delete-ok")
		}
		symAssert(vt.Sync() == nil, "sync-ok")
		symAssert(vt.Commit() == nil, "commit-ok")
		names, err := vt.common.Tree.Root.Roots()
		symAssert(err == nil, "roots-ok")
		keys, bs, err := vScanAll(vt)
		symAssert(err == nil, "scan-ok")
		now := vVer{names, keys, bs}
		if ct == nil {
			if len(names) == 0 {
				continue
			}
			// create virtual table ch using s3db_changes(table='t', from='<version now>')
			A = now
			ct = &ChangesTable{table: vt.common, module: c.changes, fromVer: names}
		}
		// optionally one storage fault while this query runs: it fails or it
		// answers completely
		faulty := symParam("faults", 0) == 1 && symChoice("faulty", 2) == 1
		if faulty {
			f := symInt("fault")
			symAssume(f >= 0)
			symAssume(f < 8)
			bkt.faultOn, bkt.faultAt = true, bkt.reqs+f
		}
		gotK, gotB, ok := vChangesScan(ct)
		bkt.faultOn = false
		if faulty && bkt.faultsInjected > 0 {
			if ok {
				vCheckChanges(A, now, gotK, gotB)
			}
			symReach("end")
			return
		}
		symAssert(ok, "changes-query-succeeds")
		vCheckChanges(A, now, gotK, gotB)
		symReach("queried")
	}
	symReach("end")
}
