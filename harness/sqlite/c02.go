package mod

// C02 at the sqlite layer: an SQL UPDATE assigns only the columns it names.
// SQLite builds the argument list of xUpdate by fetching every column of the
// row through xColumn; for the columns the statement does not change it sets
// sqlite3_vtab_nochange(), and a table that returns without a result then
// gets a "no change" marker instead of a value.  A table that ignores the flag
// makes every UPDATE re-assign (and re-stamp) all columns.  The key column is
// the exception: the binding compares the new key with the old one to decide
// between Update and Replace, so its value must be returned.

import (
	"go.riyazali.net/sqlite"

	"github.com/jrhy/s3db"
)

func symSQLContextNoChange() *sqlite.VirtualTableContext { panic("intrinsic") }

// vSQLUpdate: UPDATE t SET <col> = <val> WHERE a = <key>, the way SQLite drives it.
func vSQLUpdate(vt *VirtualTable, key int64, col int, val int64) error {
	return vSQLUpdateV(vt, key, col, symSQLInt(val))
}

func vSQLUpdateV(vt *VirtualTable, key int64, col int, val sqlite.Value) error {
	keyCol := s3db.VerifKeyCol
	out, err := vt.BestIndex(&sqlite.IndexInfoInput{Constraints: []*sqlite.IndexConstraint{{ColumnIndex: keyCol, Op: sqlite.INDEX_CONSTRAINT_EQ, Usable: true}}})
	if err != nil {
		return err
	}
	cur, err := vt.Open()
	if err != nil {
		return err
	}
	if err := cur.Filter(out.IndexNumber, out.IndexString, symSQLInt(key)); err != nil {
		return err
	}
	for !cur.Eof() {
		kc := symSQLContext()
		if err := cur.Column(kc, keyCol); err != nil {
			return err
		}
		_, kp, _ := symSQLResult(kc)
		if kp.(int64) == key {
			args := make([]sqlite.Value, 3)
			for i := 0; i < 3; i++ {
				if i == col {
					args[i] = val
					continue
				}
				c := symSQLContextNoChange()
				if err := cur.Column(c, i); err != nil {
					return err
				}
				k, p, n := symSQLResult(c)
				switch {
				case n == 0:
					args[i] = symSQLNoChange()
				case k == rINT:
					args[i] = symSQLInt(p.(int64))
				case k == rFLOAT:
					args[i] = symSQLFloat(p.(float64))
				case k == rTEXT:
					args[i] = symSQLText(p.(string))
				case k == rBLOB:
					args[i] = symSQLBlob(p.([]byte))
				case k == rNULL:
					args[i] = symSQLNull()
				default:
					return errBadKind
				}
			}
			// the binding's xUpdate trampoline: argv[0] is the old key
			// (fetched without the flag), argv[1] the new key, which is the
			// key column's entry of the argument list; an in-place UPDATE is
			// recognised by comparing the two as integers (a no-change value
			// is a NULL and reads as 0), anything else is a change of key
			oldKey := symSQLInt(kp.(int64))
			newKey := args[keyCol]
			var nk int64
			if !newKey.NoChange() && newKey.Type() == sqlite.SQLITE_INTEGER {
				nk = newKey.Int64()
			}
			if oldKey.Int64() == nk {
				return vt.Update(oldKey, args...)
			}
			return vt.Replace(oldKey, newKey, args...)
		}
		if err := cur.Next(); err != nil {
			return err
		}
	}
	return nil
}

// Two writers that both hold the row update different columns at different
// write times; after the merge each column holds the value of the statement
// that assigned it.
func VerifH_C02_sql_update() {
	// the key column is declared first, in the middle or last
	kc := symChoice("key-position", 3)
	s3db.VerifKeyCol = kc
	defer func() { s3db.VerifKeyCol = 0 }()
	nk := []int{}
	for i := 0; i < 3; i++ {
		if i != kc {
			nk = append(nk, i)
		}
	}
	row := func(a, b, c int64) []sqlite.Value {
		v := make([]sqlite.Value, 3)
		v[kc], v[nk[0]], v[nk[1]] = symSQLInt(a), symSQLInt(b), symSQLInt(c)
		return v
	}
	bkt := vNewBucket()
	symS3Register(bkt.client(1))
	c0 := vConnect()
	t0, err := c0.vTable("t0", false)
	symAssert(err == nil, "table-ok")
	symAssert(c0.conn.Update(symSQLNull(), symSQLNoChange(), symSQLText("@ins")) == nil, "set-write-time-ok")
	symAssert(t0.Begin() == nil, "begin-ok")
	_, err = t0.Insert(row(1, 10, 20)...)
	symAssert(err == nil, "insert-ok")
	symAssert(t0.Sync() == nil && t0.Commit() == nil, "commit-ok")
	tIns, _ := vWriteTimeOf(c0.m.sc.ctx)
	var times [2]int64
	for w := 0; w < 2; w++ {
		c := vConnect()
		vt, err := c.vTable("w"+string(rune('0'+w)), false)
		symAssert(err == nil, "table-ok")
		symAssert(c.conn.Update(symSQLNull(), symSQLNoChange(), symSQLText("@u"+string(rune('0'+w)))) == nil, "set-write-time-ok")
		times[w], _ = vWriteTimeOf(c.m.sc.ctx)
		symAssume(times[w] > tIns)
		symAssert(vt.Begin() == nil, "begin-ok")
		// writer 0: UPDATE t SET b = 11; writer 1: UPDATE t SET c = 22
		symAssert(vSQLUpdate(vt, 1, nk[w], int64(11+11*w)) == nil, "update-ok")
		symAssert(vt.Sync() == nil && vt.Commit() == nil, "commit-ok")
	}
	symAssume(times[0] != times[1])
	r := vConnect()
	rt, err := r.vTable("reader", true)
	symAssert(err == nil, "reader-ok")
	out, err := rt.BestIndex(&sqlite.IndexInfoInput{})
	symAssert(err == nil, "bestindex-ok")
	cur, err := rt.Open()
	symAssert(err == nil, "open-ok")
	symAssert(cur.Filter(out.IndexNumber, out.IndexString) == nil, "filter-ok")
	symAssert(!cur.Eof(), "row-visible")
	cb, cc := symSQLContext(), symSQLContext()
	symAssert(cur.Column(cb, nk[0]) == nil && cur.Column(cc, nk[1]) == nil, "column-ok")
	_, pb, _ := symSQLResult(cb)
	_, pc, _ := symSQLResult(cc)
	symAssert(pb.(int64) == 11, "column-b-holds-the-value-of-the-statement-that-assigned-it")
	symAssert(pc.(int64) == 22, "column-c-holds-the-value-of-the-statement-that-assigned-it")
	symReach("end")
}
