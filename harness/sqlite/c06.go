package mod

// C06 at the sqlite layer: BestIndex -> Filter -> Next through the wrappers
// (operator mapping, which constraint value reaches xFilter in which
// position), against "filter the rows and sort".

import "go.riyazali.net/sqlite"

type vSQLCons struct {
	op      sqlite.ConstraintOp
	col     int
	usable  bool
	operand int64
}

func vSQLSat(k, b int64, c vSQLCons) bool {
	x := k
	if c.col == 1 {
		x = b
	}
	switch c.op {
	case sqlite.INDEX_CONSTRAINT_EQ:
		return x == c.operand
	case sqlite.INDEX_CONSTRAINT_GT:
		return x > c.operand
	case sqlite.INDEX_CONSTRAINT_GE:
		return x >= c.operand
	case sqlite.INDEX_CONSTRAINT_LT:
		return x < c.operand
	case sqlite.INDEX_CONSTRAINT_LE:
		return x <= c.operand
	case sqlite.INDEX_CONSTRAINT_NE:
		return x != c.operand
	}
	return true
}

var vSQLOps = []sqlite.ConstraintOp{sqlite.INDEX_CONSTRAINT_EQ, sqlite.INDEX_CONSTRAINT_GT, sqlite.INDEX_CONSTRAINT_GE,
	sqlite.INDEX_CONSTRAINT_LT, sqlite.INDEX_CONSTRAINT_LE, sqlite.INDEX_CONSTRAINT_NE}

func VerifH_C06_sqlite_scan() {
	bkt := vNewBucket()
	symS3Register(bkt.client(1))
	c := vConnect()
	vt, err := c.vTable("t", false)
	symAssert(err == nil, "table-ok")
	n := symParam("keys", 4)
	symAssert(vt.Begin() == nil, "begin-ok")
	for k := 1; k <= n; k++ {
		_, err := vt.Insert(symSQLInt(int64(10*k)), symSQLInt(int64(100*k)), symSQLNull())
		symAssert(err == nil, "insert-ok")
	}
	symAssert(vt.Sync() == nil, "sync-ok")
	symAssert(vt.Commit() == nil, "commit-ok")
	nc := symChoice("nconstraints", symParam("constraints", 2)+1)
	lead := symParam("leadnonkey", 0) // a leading usable "=" constraint on the non-key column
	nc += lead
	cons := make([]vSQLCons, nc)
	in := &sqlite.IndexInfoInput{}
	for i := range cons {
		if i < lead {
			cons[i] = vSQLCons{op: sqlite.INDEX_CONSTRAINT_EQ, col: 1, usable: true, operand: symInt64("operand" + string(rune('0'+i)))}
		} else {
			cons[i] = vSQLCons{op: vSQLOps[symChoice("op", len(vSQLOps))], col: symChoice("column", 2), usable: symChoice("usable", 2) == 1,
				operand: symInt64("operand" + string(rune('0'+i)))}
		}
		in.Constraints = append(in.Constraints, &sqlite.IndexConstraint{ColumnIndex: cons[i].col, Op: cons[i].op, Usable: cons[i].usable})
	}
	ord := symChoice("orderby", 3)
	if ord > 0 {
		in.OrderBy = []*sqlite.OrderBy{{ColumnIndex: 0, Desc: ord == 2}}
	}
	out, err := vt.BestIndex(in)
	symAssert(err == nil, "bestindex-ok")
	symAssert(len(out.ConstraintUsage) == nc, "one-usage-entry-per-constraint")
	// SQLite hands xFilter the values of the constraints with ArgvIndex 1..k in
	// that order, and rejects the plan ("xBestIndex malfunction") when the
	// indices are not exactly 1..k
	var argv []sqlite.Value
	k := 0
	for _, u := range out.ConstraintUsage {
		if u != nil && u.ArgvIndex > 0 {
			k++
		}
	}
	for pos := 1; pos <= k; pos++ {
		found := false
		for i, u := range out.ConstraintUsage {
			if u != nil && u.ArgvIndex == pos {
				symAssert(cons[i].usable, "only-usable-constraints-are-used")
				argv = append(argv, symSQLInt(cons[i].operand))
				found = true
			}
		}
		symAssert(found, "argv-indices-are-contiguous-from-1")
	}
	cur, err := vt.Open()
	symAssert(err == nil, "open-ok")
	symAssert(cur.Filter(out.IndexNumber, out.IndexString, argv...) == nil, "filter-ok")
	var got []int64
	for steps := 0; !cur.Eof(); steps++ {
		symAssert(steps <= n, "cursor-terminates")
		c0, c1 := symSQLContext(), symSQLContext()
		symAssert(cur.Column(c0, 0) == nil && cur.Column(c1, 1) == nil, "column-ok")
		_, kp, _ := symSQLResult(c0)
		_, bp, _ := symSQLResult(c1)
		key, b := kp.(int64), bp.(int64)
		keep := true
		for i, cn := range cons { // SQLite re-checks every constraint the table did not ask it to omit
			if u := out.ConstraintUsage[i]; u != nil && u.ArgvIndex > 0 && u.Omit {
				continue
			}
			if !vSQLSat(key, b, cn) {
				keep = false
			}
		}
		if keep {
			got = append(got, key)
		}
		symAssert(cur.Next() == nil, "next-ok")
	}
	var want []int64
	for kk := int64(1); kk <= int64(n); kk++ {
		key := 10 * kk
		keep := true
		for _, cn := range cons {
			if !vSQLSat(key, 10*key, cn) {
				keep = false
			}
		}
		if keep {
			want = append(want, key)
		}
	}
	symAssert(len(got) == len(want), "complete-and-nothing-extra")
	if out.OrderByConsumed && ord > 0 {
		for i := 1; i < len(got); i++ {
			if ord == 1 {
				symAssert(got[i-1] < got[i], "ascending-order")
			} else {
				symAssert(got[i-1] > got[i], "descending-order")
			}
		}
	}
	symReach("end")
}
