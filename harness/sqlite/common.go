package mod

// Harness helpers of package sqlite (mod): the cgo-facing API is modelled by
// the engine (sqlite.Value, result contexts, the registration closure).

import (
	"context"
	"time"

	"go.riyazali.net/sqlite"

	"github.com/jrhy/s3db"
	"github.com/jrhy/s3db/writetime"
)

func symSQLInt(v int64) sqlite.Value                { panic("intrinsic") }
func symSQLFloat(v float64) sqlite.Value            { panic("intrinsic") }
func symSQLText(v string) sqlite.Value              { panic("intrinsic") }
func symSQLBlob(v []byte) sqlite.Value              { panic("intrinsic") }
func symSQLNull() sqlite.Value                      { panic("intrinsic") }
func symSQLNoChange() sqlite.Value                  { panic("intrinsic") }
func symSQLContext() *sqlite.VirtualTableContext    { panic("intrinsic") }
func symSQLAggContext() *sqlite.AggregateContext    { panic("intrinsic") }
func symSQLRegistered() any                         { panic("intrinsic") }
func symSQLModule(name string) any                  { panic("intrinsic") }
func symSQLResult(c *sqlite.VirtualTableContext) (kind int, payload any, n int) {
	panic("intrinsic")
}
func symSQLAggResult(c *sqlite.AggregateContext) (kind int, payload any, n int) {
	panic("intrinsic")
}

const (
	rINT = 1 + iota
	rFLOAT
	rTEXT
	rBLOB
	rNULL
	rERROR
)

// vConn is one SQLite connection with the extension loaded: the modules and
// functions the package registers for it.
type vConn struct {
	m       *Module
	conn    *ConnModule
	changes *ChangesModule
	vacuum  *VacuumModule
	refresh *RefreshFunc
	version *VersionFunc
}

// vConnect runs the closure that the package hands to sqlite.Register, as the
// host does once per connection.
func vConnect() *vConn {
	reg := symSQLRegistered().(func(*sqlite.ExtensionApi) (sqlite.ErrorCode, error))
	code, err := reg(nil)
	symAssert(err == nil && code == sqlite.SQLITE_OK, "extension-registers")
	return &vConn{
		m:       symSQLModule("s3db").(*Module),
		conn:    symSQLModule("s3db_conn").(*ConnModule),
		changes: symSQLModule("s3db_changes").(*ChangesModule),
		vacuum:  symSQLModule("s3db_vacuum").(*VacuumModule),
		refresh: symSQLModule("s3db_refresh").(*RefreshFunc),
		version: symSQLModule("s3db_version").(*VersionFunc),
	}
}

// vTable creates table `name` on this connection (bucket "b" of the stub store).
func (c *vConn) vTable(name string, readOnly bool) (*VirtualTable, error) {
	t, err := s3db.VerifNewTable(c.m.sc.ctx, name, s3db.S3Options{Bucket: "b", Endpoint: "e", Prefix: "p", EntriesPerNode: 2, ReadOnly: readOnly})
	if err != nil {
		return nil, err
	}
	return &VirtualTable{common: t, module: c.m}, nil
}

func vWriteTimeOf(ctx context.Context) (int64, bool) {
	t, ok := writetime.FromContext(ctx)
	if !ok {
		return 0, false
	}
	return t.UnixNano(), true
}

func vDeadlineOf(ctx context.Context) (int64, bool) {
	t, ok := ctx.Value("verif.deadline").(time.Time)
	if !ok {
		return 0, false
	}
	return t.UnixNano(), true
}

// vScanAll drives the cursor protocol of the sqlite layer over the whole table.
func vScanAll(vt *VirtualTable) (keys []int64, bs []int64, err error) {
	out, err := vt.BestIndex(&sqlite.IndexInfoInput{})
	if err != nil {
		return nil, nil, err
	}
	cur, err := vt.Open()
	if err != nil {
		return nil, nil, err
	}
	if err := cur.Filter(out.IndexNumber, out.IndexString); err != nil {
		return nil, nil, err
	}
	for !cur.Eof() {
		c0 := symSQLContext()
		if err := cur.Column(c0, 0); err != nil {
			return nil, nil, err
		}
		k, p, _ := symSQLResult(c0)
		if k != rINT {
			return nil, nil, errBadKind
		}
		keys = append(keys, p.(int64))
		c1 := symSQLContext()
		if err := cur.Column(c1, 1); err != nil {
			return nil, nil, err
		}
		k, p, _ = symSQLResult(c1)
		if k == rINT {
			bs = append(bs, p.(int64))
		} else {
			bs = append(bs, -1)
		}
		if err := cur.Next(); err != nil {
			return nil, nil, err
		}
	}
	return keys, bs, nil
}

type vErr string

func (e vErr) Error() string { return string(e) }

var errBadKind error = vErr("unexpected result kind")

var vCtx = context.Background()
