package mod

// C20 at the sqlite layer: a definition that is rejected (by SQLite's parse of
// the declared statement, or by the table itself) leaves no table registered.

import (
	"errors"

	"github.com/jrhy/s3db"
)

func VerifStub_convertSchema(s string, t *s3db.VirtualTable) error {
	t.SchemaString = "CREATE TABLE x(a PRIMARY KEY) WITHOUT ROWID"
	return nil
}

func VerifStub_UnquoteAll(s string) string { return s }

func VerifH_C20_connect() {
	symStub("convertSchema", true)
	symStub("UnquoteAll", true)
	bkt := vNewBucket()
	symS3Register(bkt.client(1))
	c := vConnect()
	declareFails := symChoice("declare-fails", 2) == 1
	declared := ""
	declare := func(s string) error {
		declared = s
		if declareFails {
			return errors.New("SQL logic error: duplicate column name")
		}
		return nil
	}
	kind := symChoice("create-or-connect", 2)
	args := []string{"s3db", "main", "t", "columns=a"}
	var err error
	if kind == 0 {
		_, err = c.m.Create(nil, args, declare)
	} else {
		_, err = c.m.Connect(nil, args, declare)
	}
	symAssert(declared != "", "schema-declared")
	if declareFails {
		symAssert(err != nil, "failed-declaration-is-an-error")
		symAssert(s3db.GetTable("t") == nil, "rejected-definition-leaves-no-table-registered")
		// the name is free again
		declareFails = false
		_, err = c.m.Connect(nil, args, declare)
		symAssert(err == nil, "name-can-be-used-after-a-rejected-definition")
	} else {
		symAssert(err == nil, "connect-ok")
		symAssert(s3db.GetTable("t") != nil, "table-registered")
	}
	symReach("end")
}
