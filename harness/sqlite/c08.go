package mod

// C08 — stored values come back unchanged in value and storage class
// (sqlite.Value -> valueToGo -> Insert -> node codec -> commit -> another
// connection -> Cursor.Column -> setContextResult).

import (
	"math"
	"unicode/utf8"

	"go.riyazali.net/sqlite"
)

func VerifH_C08_roundtrip() {
	keyPos := symChoice("position", 2) == 0 // the value under test is the key | the non-key column b
	class := symChoice("class", 5)         // INT, REAL, TEXT, BLOB, NULL
	if keyPos && class == 4 {
		class = 0 // a NULL key is rejected (C07); nothing to read back
	}
	maxLen := symParam("maxlen", 3)
	var in sqlite.Value
	var wantKind int
	var wi int64
	var wf float64
	var wb []byte
	switch class {
	case 0:
		wi = symInt64("i")
		in, wantKind = symSQLInt(wi), rINT
	case 1:
		wf = symFloat64("f")
		symAssume(wf == wf) // SQLite turns NaN into NULL before it reaches a table
		in, wantKind = symSQLFloat(wf), rFLOAT
	case 2:
		wb = symBytes("s", symChoice("len", maxLen+1))
		in, wantKind = symSQLText(string(wb)), rTEXT
	case 3:
		wb = symBytes("b", symChoice("len", maxLen+1))
		in, wantKind = symSQLBlob(wb), rBLOB
	case 4:
		in, wantKind = symSQLNull(), rNULL
	}
	bkt := vNewBucket()
	symS3Register(bkt.client(1))
	c1 := vConnect()
	vt, err := c1.vTable("t", false)
	symAssert(err == nil, "table-ok")
	symAssert(vt.Begin() == nil, "begin-ok")
	if keyPos {
		_, err = vt.Insert(in, symSQLInt(7), symSQLNull())
	} else {
		_, err = vt.Insert(symSQLInt(7), in, symSQLNull())
	}
	symAssert(err == nil, "insert-ok")
	if serr := vt.Sync(); serr != nil {
		// the one value the store may refuse: TEXT that is not UTF-8 (protobuf
		// does not encode it); a refused value is not stored at all
		symAssert(class == 2 && !utf8.ValidString(string(wb)), "only-text-that-is-not-utf8-may-be-refused")
		symAssert(vt.Rollback() == nil, "rollback-ok")
		c2 := vConnect()
		rt, err := c2.vTable("t-reader", true)
		symAssert(err == nil, "reader-table-ok")
		keys, _, err := vScanAll(rt)
		symAssert(err == nil && len(keys) == 0, "refused-value-is-not-stored")
		symReach("refused")
		symReach("end")
		return
	}
	symAssert(vt.Commit() == nil, "commit-ok")
	// another process
	c2 := vConnect()
	rt, err := c2.vTable("t-reader", true)
	symAssert(err == nil, "reader-table-ok")
	for pass := 0; pass < 2; pass++ {
		tab := vt // the writing connection reads its own value back
		if pass == 1 {
			tab = rt // and another process reads it after re-open
		}
		out, err := tab.BestIndex(&sqlite.IndexInfoInput{})
		symAssert(err == nil, "bestindex-ok")
		cur, err := tab.Open()
		symAssert(err == nil, "open-ok")
		symAssert(cur.Filter(out.IndexNumber, out.IndexString) == nil, "filter-ok")
		symAssert(!cur.Eof(), "row-is-there")
		col := 1
		if keyPos {
			col = 0
		}
		ctx := symSQLContext()
		symAssert(cur.Column(ctx, col) == nil, "column-ok")
		kind, p, _ := symSQLResult(ctx)
		symAssert(kind == wantKind, "storage-class-unchanged")
		if kind == wantKind {
			switch wantKind {
			case rINT:
				symAssert(p.(int64) == wi, "integer-unchanged")
			case rFLOAT:
				symAssert(math.Float64bits(p.(float64)) == math.Float64bits(wf), "real-bit-identical")
			case rTEXT:
				symAssert(p.(string) == string(wb), "text-unchanged")
			case rBLOB:
				symAssert(string(p.([]byte)) == string(wb), "blob-unchanged")
			}
		}
		// the column that was not mentioned reads NULL
		ctx2 := symSQLContext()
		symAssert(cur.Column(ctx2, 2) == nil, "column-ok")
		k2, _, _ := symSQLResult(ctx2)
		symAssert(k2 == rNULL, "unmentioned-column-reads-null")
		symAssert(cur.Next() == nil, "next-ok")
		symAssert(cur.Eof(), "one-row")
	}
	symReach("end")
}

// vC08Value: a value of the chosen storage class (symbolic numbers, one
// symbolic byte of TEXT/BLOB) together with what a read must give back.
type vWant struct {
	kind int
	i    int64
	f    float64
	b    []byte
}

func vC08Value(tag string) (sqlite.Value, vWant) {
	switch symChoice("class-"+tag, 5) {
	case 0:
		i := symInt64("i" + tag)
		return symSQLInt(i), vWant{kind: rINT, i: i}
	case 1:
		f := symFloat64("f" + tag)
		symAssume(f == f)
		return symSQLFloat(f), vWant{kind: rFLOAT, f: f}
	case 2:
		b := symBytes("s"+tag, 1)
		symAssume(b[0] < utf8.RuneSelf) // text that is not UTF-8 may be refused (VerifH_C08_roundtrip)
		return symSQLText(string(b)), vWant{kind: rTEXT, b: b}
	case 3:
		b := symBytes("b"+tag, 1)
		return symSQLBlob(b), vWant{kind: rBLOB, b: b}
	}
	return symSQLNull(), vWant{kind: rNULL}
}

// H08b: UPDATE t SET b = v2 over a stored v1, for every pair of storage
// classes and every pair of values (numerically equal values of different
// classes, -0.0 over 0.0, NULL over a value and back): afterwards the column
// reads v2 exactly, for the writer and for another connection.
func VerifH_C08_update() {
	v1, _ := vC08Value("1")
	v2, want := vC08Value("2")
	bkt := vNewBucket()
	symS3Register(bkt.client(1))
	c1 := vConnect()
	vt, err := c1.vTable("t", false)
	symAssert(err == nil, "table-ok")
	symAssert(c1.conn.Update(symSQLNull(), symSQLNoChange(), symSQLText("@ins")) == nil, "set-write-time-ok")
	tIns, _ := vWriteTimeOf(c1.m.sc.ctx)
	symAssert(vt.Begin() == nil, "begin-ok")
	_, err = vt.Insert(symSQLInt(7), v1, symSQLNull())
	symAssert(err == nil, "insert-ok")
	symAssert(vt.Sync() == nil && vt.Commit() == nil, "commit-ok")
	symAssert(c1.conn.Update(symSQLNull(), symSQLNoChange(), symSQLText("@upd")) == nil, "set-write-time-ok")
	tUpd, _ := vWriteTimeOf(c1.m.sc.ctx)
	symAssume(tUpd > tIns)
	symAssert(vt.Begin() == nil, "begin-ok")
	symAssert(vSQLUpdateV(vt, 7, 1, v2) == nil, "update-ok")
	symAssert(vt.Sync() == nil && vt.Commit() == nil, "commit-ok")
	c2 := vConnect()
	rt, err := c2.vTable("t-reader", true)
	symAssert(err == nil, "reader-table-ok")
	for pass := 0; pass < 2; pass++ {
		tab := vt
		if pass == 1 {
			tab = rt
		}
		out, err := tab.BestIndex(&sqlite.IndexInfoInput{})
		symAssert(err == nil, "bestindex-ok")
		cur, err := tab.Open()
		symAssert(err == nil, "open-ok")
		symAssert(cur.Filter(out.IndexNumber, out.IndexString) == nil, "filter-ok")
		symAssert(!cur.Eof(), "row-is-there")
		ctx := symSQLContext()
		symAssert(cur.Column(ctx, 1) == nil, "column-ok")
		kind, p, n := symSQLResult(ctx)
		if want.kind == rNULL {
			symAssert(n == 0 || kind == rNULL, "updated-to-null-reads-null")
			continue
		}
		symAssert(kind == want.kind, "storage-class-is-that-of-the-assigned-value")
		if kind == want.kind {
			switch want.kind {
			case rINT:
				symAssert(p.(int64) == want.i, "integer-is-the-assigned-value")
			case rFLOAT:
				symAssert(math.Float64bits(p.(float64)) == math.Float64bits(want.f), "real-is-bit-identical-to-the-assigned-value")
			case rTEXT:
				symAssert(p.(string) == string(want.b), "text-is-the-assigned-value")
			case rBLOB:
				symAssert(string(p.([]byte)) == string(want.b), "blob-is-the-assigned-value")
			}
		}
	}
	symReach("end")
}
