package kv

// C17 — the key-value layer keeps its documented last-write and tombstone rules.

import (
	"context"
	"time"

	crdtpub "github.com/jrhy/s3db/kv/crdt"
)

var vCtx = context.Background()

func vSymValue(name string) crdtpub.Value {
	v := crdtpub.Value{ModEpochNanos: symInt64(name + "_mod"), Value: name}
	if symBool(name + "_tombstoned") {
		v.TombstoneSinceEpochNanos = symInt64(name + "_tomb")
		symAssume(v.TombstoneSinceEpochNanos != 0)
		v.Value = nil
	}
	return v
}

func vSameValue(a, b *crdtpub.Value) bool {
	return symAnd(a.ModEpochNanos == b.ModEpochNanos, a.TombstoneSinceEpochNanos == b.TombstoneSinceEpochNanos, symDeepEq(a.Value, b.Value))
}

// H17a: the join of two/three entries: latest time wins, any tombstone beats
// any value, the earliest tombstone is kept; with distinct times the join is
// commutative, associative and idempotent.
func VerifH_C17_join() {
	a, b, c := vSymValue("a"), vSymValue("b"), vSymValue("c")
	symAssume(a.ModEpochNanos != b.ModEpochNanos)
	symAssume(b.ModEpochNanos != c.ModEpochNanos)
	symAssume(a.ModEpochNanos != c.ModEpochNanos)
	if a.Tombstoned() && b.Tombstoned() {
		symAssume(a.TombstoneSinceEpochNanos != b.TombstoneSinceEpochNanos)
	}
	if b.Tombstoned() && c.Tombstoned() {
		symAssume(b.TombstoneSinceEpochNanos != c.TombstoneSinceEpochNanos)
	}
	if a.Tombstoned() && c.Tombstoned() {
		symAssume(a.TombstoneSinceEpochNanos != c.TombstoneSinceEpochNanos)
	}
	ab := crdtpub.LastWriteWins(&a, &b)
	ba := crdtpub.LastWriteWins(&b, &a)
	symAssert(vSameValue(ab, ba), "commutative")
	symAssert(vSameValue(crdtpub.LastWriteWins(&a, &a), &a), "idempotent")
	bc := crdtpub.LastWriteWins(&b, &c)
	l := crdtpub.LastWriteWins(ab, &c)
	r := crdtpub.LastWriteWins(&a, bc)
	symAssert(vSameValue(l, r), "associative")
	// the documented rules
	switch {
	case a.Tombstoned() && b.Tombstoned():
		if a.TombstoneSinceEpochNanos < b.TombstoneSinceEpochNanos {
			symAssert(vSameValue(ab, &a), "earliest-tombstone-kept")
		} else {
			symAssert(vSameValue(ab, &b), "earliest-tombstone-kept")
		}
	case a.Tombstoned():
		symAssert(vSameValue(ab, &a), "tombstone-beats-value")
	case b.Tombstoned():
		symAssert(vSameValue(ab, &b), "tombstone-beats-value")
	default:
		if a.ModEpochNanos > b.ModEpochNanos {
			symAssert(vSameValue(ab, &a), "latest-value-wins")
		} else {
			symAssert(vSameValue(ab, &b), "latest-value-wins")
		}
	}
	symReach("end")
}

func vKVOpen(c *vClient, when int64, ro bool, mode int) (*DB, error) {
	cfg := Config{
		Storage:    &S3BucketInfo{EndpointURL: "e", BucketName: "b", Prefix: "kvp"},
		KeysLike:   "key",
		ValuesLike: "value",
	}
	switch mode {
	case 1:
		cfg.OnConflictMerged = func(key, v1, v2 interface{}) error { return nil }
	case 2:
		cfg.CustomMerge = func(key interface{}, v1, v2 crdtpub.Value) crdtpub.Value {
			return *crdtpub.LastWriteWins(&v1, &v2)
		}
	}
	return Open(vCtx, c, cfg, OpenOptions{ReadOnly: ro}, time.Unix(0, when))
}

type vRef struct {
	val  string
	mod  int64
	tomb bool
	has  bool
}

// H17b: Set / Tombstone on one handle against a reference: the stored entry is
// the join of the existing and the new one, Get shows a value only if the
// winner is not a tombstone.
func VerifH_C17_set() {
	mode := symChoice("mode", 3)
	bkt := vNewBucket()
	db, err := vKVOpen(bkt.client(1), 10, false, mode)
	symAssert(err == nil, "open-ok")
	var ref vRef
	n := symParam("ops", 3)
	for i := 0; i < n; i++ {
		is := string(rune('0' + i))
		t := symInt64("t" + is)
		symAssume(t > 0)
		symAssume(t < 1<<62)
		if ref.has {
			symAssume(t != ref.mod)
		}
		switch symChoice("op", 4) {
		case 0:
			val := "v" + is
			symAssert(db.Set(vCtx, time.Unix(0, t), "k", val) == nil, "set-ok")
			if !ref.has || (!ref.tomb && t > ref.mod) {
				ref = vRef{val: val, mod: t, has: true}
			}
		case 1:
			symAssert(db.Tombstone(vCtx, time.Unix(0, t), "k") == nil, "tombstone-ok")
			if !ref.has || !ref.tomb || t < ref.mod {
				ref = vRef{mod: t, tomb: true, has: true}
			}
		case 2: // purge tombstones older than t: the key is then absent as if never set
			symAssert(db.RemoveTombstones(vCtx, time.Unix(0, t)) == nil, "remove-tombstones-ok")
			if ref.has && ref.tomb && ref.mod < t {
				ref = vRef{}
			}
		case 3: // continue on a clone: an independent database with the same entries
			orig := db
			cl, err := db.Clone(vCtx)
			symAssert(err == nil, "clone-ok")
			db = cl
			// a write to the clone does not show in the original
			symAssert(db.Set(vCtx, time.Unix(0, 1<<62), "other"+is, "x") == nil, "set-ok")
			var tmp string
			ok, err := orig.Get(vCtx, "other"+is, &tmp)
			symAssert(err == nil && !ok, "clone-is-independent")
			// the original is abandoned the documented way (a dirty handle
			// that is just dropped panics in its finalizer)
			orig.Cancel()
		}
		if symParam("commits", 1) == 1 && symChoice("commit-now", 2) == 1 {
			// what has been done so far becomes a version of its own
			_, err := db.Commit(vCtx)
			symAssert(err == nil, "commit-ok")
		}
		var got string
		ok, err := db.Get(vCtx, "k", &got)
		symAssert(err == nil, "get-ok")
		symAssert(ok == (ref.has && !ref.tomb), "get-visible-iff-untombstoned-winner")
		if ok {
			symAssert(got == ref.val, "get-returns-latest-value")
		}
		ts, err := db.IsTombstoned(vCtx, "k")
		symAssert(err == nil, "istombstoned-ok")
		symAssert(ts == ref.tomb, "istombstoned-agrees")
	}
	_, err = db.Commit(vCtx)
	symAssert(err == nil, "commit-ok")
	r, err := vKVOpen(bkt.fork().client(2), 20, true, mode)
	symAssert(err == nil, "reopen-ok")
	var got string
	ok, err := r.Get(vCtx, "k", &got)
	symAssert(err == nil, "reopen-get-ok")
	symAssert(ok == (ref.has && !ref.tomb), "reopen-agrees")
	if ok {
		symAssert(got == ref.val, "reopen-value-agrees")
	}
	rts, err := r.IsTombstoned(vCtx, "k")
	symAssert(err == nil, "reopen-istombstoned-ok")
	symAssert(rts == ref.tomb, "reopen-agrees-on-tombstone")
	symReach("end")
}

// H17c: two handles write the same key at distinct times and are merged by a
// third open: the merged value is the join; Diff between the merged view and
// each parent reports the key exactly when the visible value differs;
// TraceHistory starts at the current value and goes strictly back in time.
func VerifH_C17_merge() {
	mode := symChoice("mode", 3)
	bkt := vNewBucket()
	base, err := vKVOpen(bkt.client(1), 10, false, mode)
	symAssert(err == nil, "open-ok")
	t0 := symInt64("t0")
	symAssume(t0 > 0)
	symAssume(t0 < 1<<62)
	symAssert(base.Set(vCtx, time.Unix(0, t0), "k", "v0") == nil, "set-ok")
	_, err = base.Commit(vCtx)
	symAssert(err == nil, "commit-ok")
	vBaseBucket = bkt.fork()
	var ts [2]int64
	var tomb [2]bool
	for w := 0; w < 2; w++ {
		ws := string(rune('1' + w))
		h, err := vKVOpen(bkt.fork().client(2+w), int64(20+w), false, mode)
		symAssert(err == nil, "writer-open-ok")
		ts[w] = symInt64("t" + ws)
		symAssume(ts[w] > 0)
		symAssume(ts[w] < 1<<62)
		symAssume(ts[w] != t0)
		tomb[w] = symChoice("kind"+ws, 2) == 1
		if w == 0 {
			// a tombstone on a key nobody ever set
			symAssert(h.Tombstone(vCtx, time.Unix(0, ts[w]), "never-set") == nil, "tombstone-ok")
			// and one that sorts before "k"
			symAssert(h.Tombstone(vCtx, time.Unix(0, ts[w]), "a-never-set") == nil, "tombstone-ok")
		}
		if tomb[w] {
			symAssert(h.Tombstone(vCtx, time.Unix(0, ts[w]), "k") == nil, "tombstone-ok")
		} else {
			symAssert(h.Set(vCtx, time.Unix(0, ts[w]), "k", "v"+ws) == nil, "set-ok")
		}
		_, err = h.Commit(vCtx)
		symAssert(err == nil, "writer-commit-ok")
		for k, v := range h.s3Client.(*vClient).b.objs {
			if _, ok := bkt.objs[k]; !ok {
				vStage[k] = v
			}
		}
	}
	symAssume(ts[0] != ts[1])
	for k, v := range vStage {
		bkt.objs[k] = v
	}
	// both writers retired the base version in their own fork; in the shared
	// bucket it is retired as well
	m, err := vKVOpen(bkt.client(5), 30, false, mode)
	symAssert(err == nil, "merge-open-ok")
	// reference: join of base and the two writes
	ref := vRef{val: "v0", mod: t0, has: true}
	for w := 0; w < 2; w++ {
		if tomb[w] {
			if !ref.tomb || ts[w] < ref.mod {
				ref = vRef{mod: ts[w], tomb: true, has: true}
			}
		} else if !ref.tomb && ts[w] > ref.mod {
			ref = vRef{val: "v" + string(rune('1'+w)), mod: ts[w], has: true}
		}
	}
	var got string
	ok, err := m.Get(vCtx, "k", &got)
	symAssert(err == nil, "merged-get-ok")
	symAssert(ok == !ref.tomb, "merged-visible-iff-no-tombstone")
	if ok {
		symAssert(got == ref.val, "merged-value-is-latest")
	}
	// cursor agrees with Get
	cur, err := m.Cursor(vCtx)
	symAssert(err == nil, "cursor-ok")
	symAssert(cur.Min(vCtx) == nil, "cursor-min-ok")
	ck, cv, found := cur.Get()
	symAssert(found, "cursor-finds-entry")
	symAssert(ck.(string) == "a-never-set" && cv.Tombstoned(), "cursor-in-key-order")
	symAssert(cur.Forward(vCtx) == nil, "cursor-forward-ok")
	ck, cv, found = cur.Get()
	symAssert(found, "cursor-finds-entry")
	symAssert(ck.(string) == "k", "cursor-in-key-order")
	symAssert(cv.Tombstoned() == ref.tomb, "cursor-agrees-on-tombstone")
	// Diff between the merged view and the base version reports the key exactly
	// when its visible value differs (a tombstone of a key that the other side
	// never had is not a difference)
	bdb, err := vKVOpen(vBaseBucket.client(6), 40, true, mode)
	symAssert(err == nil, "base-open-ok")
	var diffKeys []string
	err = m.Diff(vCtx, bdb, func(key, mine, from interface{}) (bool, error) {
		diffKeys = append(diffKeys, key.(string))
		return true, nil
	})
	symAssert(err == nil, "diff-ok")
	kChanged := ref.tomb || ref.val != "v0"
	sawK, sawOther := false, false
	for _, dk := range diffKeys {
		if dk == "k" {
			sawK = true
		} else {
			sawOther = true
		}
	}
	symAssert(sawK == kChanged, "diff-reports-key-iff-visible-value-differs")
	symAssert(!sawOther, "diff-ignores-tombstone-of-never-set-key")
	// a tombstone that only one writer had survives the merge: the key stays
	// absent whatever is set on it later, until tombstones are purged
	for _, nk := range []string{"a-never-set", "never-set"} {
		nts, err := m.IsTombstoned(vCtx, nk)
		symAssert(err == nil, "istombstoned-ok")
		symAssert(nts, "tombstone-of-one-writer-survives-the-merge")
		tl := symInt64("tlater")
		symAssume(tl > 0)
		symAssume(tl < 1<<62)
		symAssert(m.Set(vCtx, time.Unix(0, tl), nk, "late") == nil, "set-ok")
		var tmp string
		vis, err := m.Get(vCtx, nk, &tmp)
		symAssert(err == nil, "get-ok")
		symAssert(!vis, "tombstone-beats-every-later-value")
	}
	// TraceHistory
	var last int64 = 1 << 62
	first := true
	err = m.TraceHistory(vCtx, "k", time.Time{}, func(when time.Time, value interface{}) (bool, error) {
		n := when.UnixNano()
		if first {
			symAssert(n == ref.mod, "history-starts-at-current-entry")
			first = false
		}
		symAssert(n < last, "history-strictly-decreasing")
		last = n
		symAssert(symOr(n == t0, n == ts[0], n == ts[1]), "history-yields-only-committed-times")
		return true, nil
	})
	symAssert(err == nil, "tracehistory-ok")
	m.Cancel() // the late writes above are not kept
	symReach("end")
}

var vStage = map[string][]byte{}
var vBaseBucket *vBucket
