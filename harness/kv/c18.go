package kv

// C18 — the encryption glue: round-trip for every length, determinism (so
// unchanged nodes deduplicate), no panic on any ciphertext length, the legacy
// box stays readable, the encryptor wraps node objects only.  The primitives
// are uninterpreted functions with their algebraic contracts.

import (
	"bytes"
	"encoding/base64"
	"time"
)

func symLastKDFInput() []byte { panic("intrinsic") }

var vC18Lengths = []int{0, 1, 15, 16, 17, 31, 32, 33, 47, 48, 63, 64, 65, 72}

func vC18Len() int {
	if symParam("alllengths", 0) == 1 {
		return symChoice("len", 73)
	}
	return vC18Lengths[symChoice("len", len(vC18Lengths))]
}

func vSymKey32() *[32]byte {
	var k [32]byte
	copy(k[:], symBytes("key", 32))
	return &k
}

// H18a: decrypt(k, encrypt(k, m)) = m; encrypt is a function of (k, m).
func VerifH_C18_roundtrip() {
	n := vC18Len()
	m := symBytes("m", n)
	k := vSymKey32()
	c, err := encrypt(k, m)
	symAssert(err == nil, "encrypt-ok")
	c2, err := encrypt(k, m)
	symAssert(err == nil, "encrypt-ok")
	symAssert(bytes.Equal(c, c2), "equal-plaintext-gives-equal-ciphertext")
	p, err := decrypt(k, c)
	symAssert(err == nil, "decrypt-ok")
	symAssert(len(p) == n, "plaintext-length")
	symAssert(bytes.Equal(p, m), "round-trip")
	symReach("end")
}

// H18b: the legacy hand-rolled box: open(seal(m)) = m across the 32-byte
// first-block boundary, and decrypt falls back to it when secretbox refuses.
func VerifH_C18_legacy() {
	n := vC18Len()
	if n > 32 {
		symEvent("legacy-plaintext-longer-than-32-bytes")
	}
	m := symBytes("m", n)
	k := vSymKey32()
	nonce := symBytes("nonce", 24)
	c, err := crypto_secretbox_easy(m, nonce, k)
	symAssert(err == nil, "legacy-seal-ok")
	p, err := crypto_secretbox_open_easy(c, nonce, k)
	symAssert(err == nil, "legacy-open-ok")
	symAssert(bytes.Equal(p, m), "legacy-round-trip")
	// as stored: nonce followed by the box
	stored := append(append([]byte{}, nonce...), c...)
	p2, err := decrypt(k, stored)
	symAssert(err == nil, "legacy-data-remains-readable")
	symAssert(bytes.Equal(p2, m), "legacy-data-reads-back-unchanged")
	symReach("legacy-readable")
	symReach("end")
}

// H18c: decrypt of an arbitrary buffer never panics (slice bounds) for any length.
func VerifH_C18_arbitrary() {
	n := symChoice("len", symParam("maxbuf", 72)+1)
	buf := symBytes("c", n)
	k := vSymKey32()
	_, err := decrypt(k, buf)
	if err == nil {
		// data is returned only if an authentication check passed
		symAssert(symEventSeen("secretbox-open-ok") || symEventSeen("poly1305-verify-ok"), "data-only-after-a-mac-check-passed")
		symAssert(n >= encryptNonceLen+macLen, "data-only-from-a-buffer-that-can-hold-nonce-and-mac")
		symReach("accepted")
	}
	symReach("end")
}

// H18d: with an encryptor configured, node objects (and only they) pass through it.
type vTagEncryptor struct{ enc, dec int }

func (t *vTagEncryptor) Encrypt(path string, value []byte) ([]byte, error) {
	t.enc++
	return append([]byte{'E'}, value...), nil
}
func (t *vTagEncryptor) Decrypt(path string, value []byte) ([]byte, error) {
	t.dec++
	if len(value) == 0 || value[0] != 'E' {
		return nil, ErrMACVerificationFailure
	}
	return value[1:], nil
}

func VerifH_C18_wrapping() {
	bkt := vNewBucket()
	enc := &vTagEncryptor{}
	cfg := vKVCfg()
	cfg.NodeEncryptor = enc
	db, err := Open(vCtx, bkt.client(1), cfg, OpenOptions{}, time.Unix(0, 10))
	symAssert(err == nil, "open-ok")
	symAssert(db.Set(vCtx, time.Unix(0, 100), "k", "v") == nil, "set-ok")
	// optionally one transient storage fault during the commit
	faulty := symChoice("faulty", 2) == 1
	if faulty {
		f := symInt("fault")
		symAssume(f >= 0)
		symAssume(f < 4)
		bkt.faultOn, bkt.faultAt = true, bkt.reqs+f
	}
	_, err = db.Commit(vCtx)
	bkt.faultOn = false
	if faulty {
		// whatever reached the bucket under node/ is ciphertext
		for name, body := range bkt.objs {
			if len(name) > 9 && name[:9] == "kvp/node/" {
				symAssert(len(body) > 0 && body[0] == 'E', "node-objects-are-encrypted")
			}
		}
		symReach("end")
		return
	}
	symAssert(err == nil, "commit-ok")
	nodes := 0
	for name, body := range bkt.objs {
		isNode := len(name) > 9 && name[:9] == "kvp/node/"
		if isNode {
			nodes++
			symAssert(len(body) > 0 && body[0] == 'E', "node-objects-are-encrypted")
		} else {
			symAssert(len(body) == 0 || body[0] != 'E', "only-node-objects-are-encrypted")
		}
	}
	symAssert(nodes == enc.enc && nodes > 0, "store-receives-exactly-the-encryptor-output")
	r, err := Open(vCtx, bkt.fork().client(2), cfg, OpenOptions{ReadOnly: true}, time.Unix(0, 20))
	symAssert(err == nil, "reopen-ok")
	var v string
	ok, err := r.Get(vCtx, "k", &v)
	symAssert(err == nil && ok && v == "v", "reads-back-through-decryption")
	symAssert(enc.dec > 0, "nodes-are-decrypted-on-load")
	// a different passphrase (an encryptor that refuses) is an error, not data
	cfg2 := vKVCfg()
	r2, err := Open(vCtx, bkt.fork().client(3), cfg2, OpenOptions{ReadOnly: true}, time.Unix(0, 30))
	if err == nil {
		ok, err := r2.Get(vCtx, "k", &v)
		symAssert(err != nil || !ok, "undecrypted-node-does-not-yield-data")
	}
	symReach("end")
}

// H18e: the key comes from the whole passphrase as it was when the encryptor
// was made: (1) the key-derivation function receives the base64 text of all
// of its bytes (zero bytes included), (2) what the caller does to its buffer
// afterwards does not change the key: an encryptor made from a copy of the
// passphrase opens what this one sealed.
func VerifH_C18_passphrase() {
	n := 1 + symChoice("passlen", 3)
	pass := symBytes("pass", n)
	keep := append([]byte{}, pass...)
	enc := V1NodeEncryptor(pass)
	// the caller wipes its buffer
	for i := range pass {
		pass[i] = 0
	}
	m := symBytes("m", 2)
	c, err := enc.Encrypt("node/x", m)
	symAssert(err == nil, "encrypt-ok")
	// by now a key has been derived (when is the encryptor's business)
	want := []byte(base64.StdEncoding.EncodeToString(keep))
	symAssert(bytes.Equal(symLastKDFInput(), want), "key-derivation-takes-the-whole-passphrase")
	other := V1NodeEncryptor(keep)
	p, err := other.Decrypt("node/x", c)
	symAssert(err == nil, "same-passphrase-opens-the-data")
	symAssert(bytes.Equal(p, m), "same-passphrase-returns-the-data")
	symReach("end")
}
