package kv

// C09 / C10 (version side) — DeleteHistoricVersions never removes an object
// that a version it keeps still needs; it removes the versions superseded
// before the cutoff.

import (
	"time"

	"github.com/jrhy/mast"
)

func vKVVersionReadable(bkt *vBucket, ver string, mode int) bool {
	cfg := Config{
		Storage:    &S3BucketInfo{EndpointURL: "e", BucketName: "b", Prefix: "kvp"},
		KeysLike:   "key",
		ValuesLike: "value",
	}
	db, err := Open(vCtx, bkt.fork().client(7), cfg, OpenOptions{ReadOnly: true, OnlyVersions: []string{ver}}, time.Unix(0, 1))
	if err != nil {
		return false
	}
	cur, err := db.Cursor(vCtx)
	if err != nil {
		return false
	}
	if err := cur.Min(vCtx); err != nil {
		return false
	}
	for i := 0; i < 8; i++ {
		if _, _, ok := cur.Get(); !ok {
			return true
		}
		if err := cur.Forward(vCtx); err != nil {
			return false
		}
	}
	return true
}

// H09-kv: a history of committed versions built with Set / physical removal
// (Tombstone + RemoveTombstones) through handles with symbolic creation times,
// including histories that return the tree to an earlier content; then
// DeleteHistoricVersions with a symbolic cutoff.
func VerifH_C09_kv_history() {
	steps := symParam("steps", 5)
	bkt := vNewBucket()
	created := symInt64("created0")
	symAssume(created > 0)
	symAssume(created < 1<<62)
	db, err := Open(vCtx, bkt.client(1), vKVCfg(), OpenOptions{}, time.Unix(0, created))
	symAssert(err == nil, "open-ok")
	handles := 1
	curCreated := created
	type ver struct {
		name    string
		created int64
	}
	var chain []ver
	for i := 0; i < steps; i++ {
		t := time.Unix(0, int64(1000+i))
		switch symChoice("op", 4) {
		case 0:
			symAssert(db.Set(vCtx, t, "k1", "v") == nil, "set-ok")
		case 1:
			symAssert(db.Set(vCtx, t, "k2", "v") == nil, "set-ok")
		case 2: // remove k2 physically (what vacuum does to a deleted row)
			symAssert(db.Tombstone(vCtx, time.Time{}, "k2") == nil, "tombstone-ok")
			symAssert(db.RemoveTombstones(vCtx, time.Unix(0, 1)) == nil, "remove-tombstones-ok")
		case 3: // continue through a new handle, created later
			if handles >= 2 {
				continue
			}
			_, err := db.Commit(vCtx)
			symAssert(err == nil, "commit-ok")
			c2 := symInt64("created1")
			symAssume(c2 > created)
			symAssume(c2 < 1<<62)
			db, err = Open(vCtx, bkt.client(1), vKVCfg(), OpenOptions{}, time.Unix(0, c2))
			symAssert(err == nil, "reopen-ok")
			handles++
			curCreated = c2
		}
		name, err := db.Commit(vCtx)
		symAssert(err == nil, "commit-ok")
		if name != nil && (len(chain) == 0 || chain[len(chain)-1].name != *name) {
			chain = append(chain, ver{*name, curCreated})
		}
	}
	cut := symInt64("cutoff")
	symAssume(cut > 0)
	symAssume(cut < 1<<62)
	faulty := symParam("faults", 0) == 1 && symChoice("faulty", 2) == 1
	if faulty {
		// one storage fault at a symbolic request of the vacuum: whatever it
		// reports, it has not taken anything a kept version needs
		f := symInt("fault")
		symAssume(f >= 0)
		symAssume(f < symParam("maxfault", 16))
		bkt.faultOn, bkt.faultAt = true, bkt.reqs+f
	}
	err = DeleteHistoricVersions(vCtx, db, time.Unix(0, cut))
	bkt.faultOn = false
	if !faulty || bkt.faultsInjected == 0 {
		symAssert(err == nil, "delete-historic-versions-ok")
	}
	complete := err == nil && (!faulty || bkt.faultsInjected == 0)
	// version side of the cutoff: a version whose successor was created strictly
	// before the cutoff is gone, one whose successor was created after it is kept
	for i := 0; i+1 < len(chain); i++ {
		_, present := bkt.objs["kvp/root/merged/"+chain[i].name]
		if chain[i+1].created < cut && complete {
			symAssert(!present, "version-superseded-before-cutoff-is-gone")
		}
		if chain[i+1].created > cut {
			symAssert(present, "version-superseded-after-cutoff-is-kept")
		}
	}
	// the current version stays, unless it is empty and older than the cutoff
	// (an empty version is as good as none; a younger one is still the only
	// link to the history a later vacuum has to find)
	if len(chain) > 0 {
		last := chain[len(chain)-1]
		_, present := bkt.objs["kvp/root/current/"+last.name]
		if db.Size() > 0 || last.created > cut {
			symAssert(present, "current-version-is-kept")
		}
	}
	// every version object that is still there is fully readable.  (An
	// interrupted run removes the nodes of the versions it reclaims before
	// their version objects: then only the versions the cutoff keeps count.)
	keep := map[string]bool{}
	for i := range chain {
		if i+1 == len(chain) || chain[i+1].created > cut {
			keep[chain[i].name] = true
		}
	}
	for _, pfx := range []string{"kvp/root/current/", "kvp/root/merged/"} {
		for _, name := range bkt.names(pfx) {
			if !complete && !keep[name[len(pfx):]] {
				continue
			}
			symAssert(vKVVersionReadable(bkt, name[len(pfx):], 0), "kept-version-fully-readable")
		}
	}
	// the handle itself still reads its data
	cur, err := db.Cursor(vCtx)
	symAssert(err == nil, "cursor-ok")
	symAssert(cur.Min(vCtx) == nil, "current-version-readable")
	if !complete {
		symReach("end")
		return
	}
	// repeating it changes nothing
	names1 := bkt.names("")
	symAssert(DeleteHistoricVersions(vCtx, db, time.Unix(0, cut)) == nil, "second-run-ok")
	symAssert(symDeepEq(names1, bkt.names("")), "second-run-changes-nothing")
	symReach("end")
}

func vKVCfg() Config {
	return Config{
		Storage:    &S3BucketInfo{EndpointURL: "e", BucketName: "b", Prefix: "kvp"},
		KeysLike:   "key",
		ValuesLike: "value",
	}
}

// H16-cache: two databases under different prefixes of one bucket share one
// node cache (the cache is "S3-endpoint-scoped" by contract); the second one
// commits content byte-identical to what the first one cached.  After its
// commit is acknowledged, a fresh process reads it from the bucket alone.
func VerifH_C16_shared_cache() {
	bkt := vNewBucket()
	cache := mast.NewNodeCache(8)
	same := symChoice("same-content", 2) == 1
	for i, pfx := range []string{"dba", "dbb"} {
		cfg := vKVCfg()
		cfg.Storage = &S3BucketInfo{EndpointURL: "e", BucketName: "b", Prefix: pfx}
		cfg.NodeCache = cache
		db, err := Open(vCtx, bkt.client(1+i), cfg, OpenOptions{}, time.Unix(0, int64(10+i)))
		symAssert(err == nil, "open-ok")
		val := "v"
		if !same && i == 1 {
			val = "w"
		}
		symAssert(db.Set(vCtx, time.Unix(0, 100), "k", val) == nil, "set-ok")
		_, err = db.Commit(vCtx)
		symAssert(err == nil, "commit-ok")
		// a fresh process, no cache
		cfg2 := vKVCfg()
		cfg2.Storage = &S3BucketInfo{EndpointURL: "e", BucketName: "b", Prefix: pfx}
		r, err := Open(vCtx, bkt.fork().client(5), cfg2, OpenOptions{ReadOnly: true}, time.Unix(0, 50))
		symAssert(err == nil, "fresh-open-ok")
		var got string
		ok, err := r.Get(vCtx, "k", &got)
		symAssert(err == nil, "fresh-get-ok")
		symAssert(ok && got == val, "acknowledged-commit-readable-from-the-bucket-alone")
	}
	symReach("end")
}

// H14-kv: a Commit that failed on a storage error and is called again once the
// fault is gone must really store the version: it may not report success for
// data that a later open cannot see.
func VerifH_C14_kv_commit_retry() {
	bkt := vNewBucket()
	db, err := Open(vCtx, bkt.client(1), vKVCfg(), OpenOptions{}, time.Unix(0, 10))
	symAssert(err == nil, "open-ok")
	if symChoice("has-earlier-version", 2) == 1 {
		symAssert(db.Set(vCtx, time.Unix(0, 50), "k0", "v0") == nil, "set-ok")
		_, err := db.Commit(vCtx)
		symAssert(err == nil, "commit-ok")
	}
	symAssert(db.Set(vCtx, time.Unix(0, 100), "k", "v") == nil, "set-ok")
	f := symInt("fault")
	symAssume(f >= 0)
	symAssume(f < 5)
	bkt.faultOn, bkt.faultAt = true, bkt.reqs+f
	_, err1 := db.Commit(vCtx)
	bkt.faultOn = false
	symObserve("first_commit_failed", err1 != nil)
	// the caller retries until it is told the commit succeeded
	for i := 0; i < 2 && err1 != nil; i++ {
		_, err1 = db.Commit(vCtx)
	}
	r, err := Open(vCtx, bkt.fork().client(2), vKVCfg(), OpenOptions{ReadOnly: true}, time.Unix(0, 20))
	symAssert(err == nil, "later-open-ok")
	var v string
	ok, err := r.Get(vCtx, "k", &v)
	symAssert(err == nil, "later-get-ok")
	if err1 == nil {
		symAssert(ok && v == "v", "acknowledged-commit-is-visible-to-a-later-open")
	} else {
		// the handle may refuse to commit again (it then has to be re-opened);
		// what it may not do is claim success. A new handle can write.
		w2, err := Open(vCtx, bkt.client(3), vKVCfg(), OpenOptions{}, time.Unix(0, 30))
		symAssert(err == nil, "new-handle-opens")
		symAssert(w2.Set(vCtx, time.Unix(0, 200), "k", "v2") == nil, "new-handle-set-ok")
		_, err = w2.Commit(vCtx)
		symAssert(err == nil, "new-handle-commits")
		symReach("refused")
	}
	symReach("end")
}
