package s3db

// C16 — every committed version is complete and well-formed on its own.

// vUFLayer replaces the layer hash by an uninterpreted function of the key
// (values 0..maxLayer): the tree shape is then decided by the symbolic order
// and the symbolic layers of the keys, so every shape up to that height
// occurs, including sparse interior nodes.  Every (order, layers) combination
// is realisable by real integers (k = odd * bf^layer).
func vUFLayer(maxLayer uint8) {
	defaultLayer = func(i interface{}, branchFactor uint) (uint8, error) {
		l := symUF8("layer", i.(int64))
		symAssume(l <= maxLayer)
		return l, nil
	}
}

func vDistinctKeys(n int) []int64 {
	keys := make([]int64, n)
	for i := 0; i < n; i++ {
		keys[i] = symInt64("k" + string(rune('0'+i)))
		for j := 0; j < i; j++ {
			symAssume(keys[i] != keys[j])
		}
	}
	return keys
}

// H16b: after every commit, a fresh handle with an empty cache reads the whole
// table from the bucket alone and sees exactly the writer's rows, in strictly
// increasing key order; no object name is ever written with two different
// bodies; point lookups agree.
func VerifH_C16_fresh() {
	n := symParam("keys", 3)
	commits := symParam("commits", 2)
	vUFLayer(uint8(symParam("maxlayer", 2)))
	bkt := vNewBucket()
	w := vMustOpen(bkt.client(1), vTableOpts{bf: 2, cache: symParam("cache", 0)}, 10)
	keys := vDistinctKeys(n)
	per := (n + commits - 1) / commits
	for i := 0; i < n; i++ {
		err := vIns(w, int64(100+i), keys[i], int64(i), nil)
		symAssert(err == nil, "insert-ok")
		if (i+1)%per == 0 || i == n-1 {
			symAssert(w.Commit(vCtx) == nil, "commit-ok")
			wrows, err := vScan(w)
			vDbg("writer-scan", err)
			symAssert(err == nil, "writer-scan-ok")
			symAssert(len(wrows) == i+1, "writer-sees-all-rows")
			// a fresh process: no cache of its own
			r, err := vOpen(bkt.fork().client(2), vTableOpts{bf: 2, readOnly: true}, 50)
			symAssert(err == nil, "fresh-open-ok")
			rrows, err := vScan(r)
			symAssert(err == nil, "fresh-scan-ok")
			symAssert(vRowsEq(wrows, rrows), "fresh-scan-equals-writer")
			for j := 1; j < len(rrows); j++ {
				symAssert(rrows[j-1].k.(int64) < rrows[j].k.(int64), "keys-strictly-increasing")
			}
			// point lookups through the fresh handle
			for j := 0; j <= i; j++ {
				ok, err := vHas(r, keys[j])
				symAssert(err == nil, "fresh-get-ok")
				symAssert(ok, "fresh-get-finds-committed-key")
			}
		}
	}
	symAssert(len(bkt.rewrites) == 0, "objects-immutable")
	// every object a version refers to exists: the fresh scans above loaded all
	// of them.  (Object *counts* are not observed: protobuf marshals the column
	// map in random order natively, so equal nodes may get different names from
	// run to run; the engine's codec is canonical.)
	symObserve("mutations", bkt.muts)
	symReach("end")
}

// H16a: unmarshalProto(marshalProto(n)) gives back what mast and the cursors
// observe of n: absent links stay absent, present links keep their name,
// keys, timestamps, tombstones, PreviousRoot and rows are unchanged.
func VerifH_C16_codec() {
	nk := symChoice("nkeys", 3) // 0..2 entries
	var n mastNodeT
	n.Key = make([]interface{}, nk)
	n.Value = make([]interface{}, nk)
	hasLinks := symChoice("haslinks", 2) == 1
	if hasLinks {
		n.Link = make([]interface{}, nk+1)
		for i := range n.Link {
			if symChoice("link", 2) == 1 {
				n.Link[i] = "L" + string(rune('0'+i))
			}
		}
	}
	for i := 0; i < nk; i++ {
		is := string(rune('0' + i))
		n.Key[i] = NewKey(symInt64("key" + is))
		cv := crdtValueT{ModEpochNanos: symInt64("mod" + is), TombstoneSinceEpochNanos: symInt64("tomb" + is)}
		if symChoice("prev", 2) == 1 {
			cv.PreviousRoot = "root-x"
		}
		switch symChoice("rowkind", 4) {
		case 0: // kv tombstone / no row
		case 1: // deleted row
			cv.Value = &v1protoRow{Deleted: true, DeleteUpdateOffset: durNew(symInt64("doff" + is))}
		case 3: // deleted row that still carries what its columns held (a later merge may need it)
			cv.Value = &v1protoRow{
				Deleted:            true,
				DeleteUpdateOffset: durNew(symInt64("doff" + is)),
				ColumnValues: map[string]*v1protoColumnValue{
					"b": {UpdateOffset: durNew(symInt64("uoff" + is)), Value: toSQLiteValue(symInt64("val" + is))},
				},
			}
		case 2: // live row with one column
			cv.Value = &v1protoRow{
				DeleteUpdateOffset: durNew(symInt64("doff" + is)),
				ColumnValues: map[string]*v1protoColumnValue{
					"b": {UpdateOffset: durNew(symInt64("uoff" + is)), Value: toSQLiteValue(symInt64("val" + is))},
				},
			}
		}
		n.Value[i] = cv
	}
	enc, err := marshalProto(n)
	symAssert(err == nil, "marshal-ok")
	var out mastNodeT
	err = unmarshalProto(enc, &out)
	symAssert(err == nil, "unmarshal-ok")
	symAssert(len(out.Key) == nk, "key-count")
	symAssert(len(out.Value) == nk, "value-count")
	if hasLinks {
		anyLink := false
		for i := range n.Link {
			if n.Link[i] != nil {
				anyLink = true
			}
		}
		if anyLink {
			symAssert(len(out.Link) == nk+1, "link-count")
			for i := range n.Link {
				if n.Link[i] == nil {
					symAssert(out.Link[i] == nil, "absent-link-stays-absent")
				} else {
					symAssert(out.Link[i] != nil, "present-link-stays-present")
					s, ok := out.Link[i].(string)
					symAssert(ok, "link-is-name")
					symAssert(s == n.Link[i].(string), "link-name-unchanged")
				}
			}
		} else {
			for i := range out.Link {
				symAssert(out.Link[i] == nil, "no-links-stay-absent")
			}
		}
	} else {
		symAssert(len(out.Link) == 0, "nil-links-stay-empty")
	}
	for i := 0; i < nk; i++ {
		symAssert(out.Key[i].(*Key).Order(n.Key[i].(*Key)) == 0, "key-unchanged")
		a, b := n.Value[i].(crdtValueT), out.Value[i].(crdtValueT)
		symAssert(a.ModEpochNanos == b.ModEpochNanos, "mod-unchanged")
		symAssert(a.TombstoneSinceEpochNanos == b.TombstoneSinceEpochNanos, "tombstone-unchanged")
		symAssert(a.PreviousRoot == b.PreviousRoot, "previous-root-unchanged")
		ra, _ := a.Value.(*v1protoRow)
		rb, _ := b.Value.(*v1protoRow)
		symAssert((ra == nil) == (rb == nil), "row-nilness-unchanged")
		if ra != nil && rb != nil {
			symAssert(ra.Deleted == rb.Deleted, "deleted-unchanged")
			symAssert(ra.DeleteUpdateOffset.AsDuration() == rb.DeleteUpdateOffset.AsDuration(), "delete-offset-unchanged")
			symAssert(len(ra.ColumnValues) == len(rb.ColumnValues), "column-count-unchanged")
			for name, cva := range ra.ColumnValues {
				cvb := rb.ColumnValues[name]
				symAssert(cvb != nil, "column-present")
				symAssert(cva.UpdateOffset.AsDuration() == cvb.UpdateOffset.AsDuration(), "update-offset-unchanged")
				symAssert(cva.Value.Type == cvb.Value.Type, "value-type-unchanged")
				symAssert(cva.Value.Int == cvb.Value.Int, "value-unchanged")
			}
		}
	}
	symReach("end")
}
