package s3db

// C20 — table definitions are accepted, declared and rejected consistently.
// The regexp-combinator grammar (sql.Schema) and the unquoting parser are
// stubbed; New's argument loop and convertSchema's body are the code under
// test.

import (
	"context"
	"errors"
	"strings"

	"github.com/jrhy/s3db/sql/colval"
	sqlTypes "github.com/jrhy/s3db/sql/types"
)

var (
	vC20SchemaOK   bool
	vC20OpenErr    bool
	vC20OpenCalled int
	vC20SawRO      bool
	vC20Schema     *sqlTypes.Schema
	vC20ParseErr   bool
)

// stubs (symStub redirects calls of the real functions here)
func VerifStub_convertSchema(s string, t *VirtualTable) error {
	if !vC20SchemaOK {
		return errors.New("bad schema")
	}
	t.SchemaString = "CREATE TABLE x(a PRIMARY KEY) WITHOUT ROWID"
	return nil
}

func VerifStub_OpenKV(ctx context.Context, s3opts S3Options, subdir string) (*KV, error) {
	vC20OpenCalled++
	vC20SawRO = s3opts.ReadOnly
	if vC20OpenErr {
		return nil, errors.New("open failed")
	}
	return &KV{}, nil
}

func VerifStub_parseSchema(a string) (*sqlTypes.Schema, error) {
	if vC20ParseErr {
		return nil, errors.New("failed to parse")
	}
	return vC20Schema, nil
}

var vOptionNames = []string{"columns", "entries_per_node", "node_cache_entries", "readonly", "s3_bucket", "s3_endpoint", "s3_prefix", "colums", "", "READONLY"}

const vDocumented = 7

// H20a: New(ctx, [name, a1..an]).
func VerifH_C20_args() {
	symStub("convertSchema", true)
	symStub("OpenKV", true)
	internalUnquoteStub()
	vC20SchemaOK = symChoice("schema-ok", 2) == 1
	vC20OpenErr = symChoice("open-fails", 2) == 1
	vC20OpenCalled, vC20SawRO = 0, false
	n := 1 + symChoice("nargs", symParam("maxargs", 2))
	withColumns := symParam("withcolumns", 0) == 1 // the list starts with a well-formed columns argument
	if withColumns {
		n++
	}
	args := []string{"t"}
	names := make([]int, n)
	hasEq := make([]bool, n)
	decimal := make([]bool, n)
	for i := 0; i < n; i++ {
		if withColumns && i == 0 {
			names[i], hasEq[i] = 0, true
			args = append(args, vOptionNames[0]+"=x")
			continue
		}
		names[i] = symChoice("name", len(vOptionNames))
		hasEq[i] = symChoice("has-eq", 2) == 1
		a := vOptionNames[names[i]]
		if hasEq[i] {
			// the value: a short arbitrary byte string, or (for the two numeric
			// options) the decimal number 10
			if (names[i] == 1 || names[i] == 2) && symChoice("decimal", 2) == 1 {
				a += "=10"
				decimal[i] = true
			} else {
				a += "=" + symString("val"+string(rune('0'+i)), symChoice("vallen", symParam("maxval", 2)+1))
			}
		}
		args = append(args, a)
	}
	before := len(tables)
	vt, err := New(vCtx, args)
	// expectations from the documentation
	unknown, dup, malformed, hasColumns, ro := false, false, false, false, false
	for i := 0; i < n; i++ {
		if names[i] >= vDocumented {
			unknown = true
		}
		for j := 0; j < i; j++ {
			if names[i] == names[j] {
				dup = true
			}
		}
		name := vOptionNames[names[i]]
		if name == "readonly" {
			ro = true
		} else if !hasEq[i] && names[i] < vDocumented {
			malformed = true // an option that needs a value came without '='
		}
		if name == "columns" && hasEq[i] {
			hasColumns = true
		}
	}
	if unknown || dup || malformed {
		symAssert(err != nil, "unknown-duplicated-or-malformed-argument-rejected")
	}
	if !hasColumns {
		symAssert(err != nil, "missing-columns-rejected")
	}
	if err != nil {
		symAssert(vt == nil, "no-table-on-error")
		symAssert(len(tables) == before, "nothing-registered-on-error")
		symAssert(GetTable("t") == nil, "registry-usable-after-rejected-definition")
	} else {
		symAssert(vt != nil && tables["t"] == vt, "table-registered")
		symAssert(vC20OpenCalled >= 1, "store-opened")
		symAssert(vC20SawRO == ro, "readonly-reaches-the-store-options")
		symAssert(vt.S3Options.ReadOnly == ro, "readonly-recorded")
		for i := 0; i < n; i++ {
			if decimal[i] && names[i] == 1 {
				symAssert(vt.S3Options.EntriesPerNode == 10, "entries-per-node-is-the-number-given")
			}
			if decimal[i] && names[i] == 2 {
				symAssert(vt.S3Options.NodeCacheEntries == 10, "node-cache-entries-is-the-number-given")
			}
		}
		symReach("accepted")
	}
	if unknown || dup || malformed || !hasColumns {
		symAssert(vC20OpenCalled == 0, "no-store-access-for-rejected-arguments")
	}
	symReach("end")
}

func internalUnquoteStub() {
	symStub("UnquoteAll", true)
}

// the unquoting parser (regexp combinators) is replaced by the identity
func VerifStub_UnquoteAll(s string) string { return s }

// H20b: convertSchema over a symbolic parsed schema.
func VerifH_C20_schema() {
	symStub("parseSchema", true)
	vC20ParseErr = symChoice("parse-fails", 2) == 1
	nc := 1 + symChoice("ncols", 3)
	colNames := []string{"a", "b", "c"}
	sch := &sqlTypes.Schema{}
	dupName := false
	for i := 0; i < nc; i++ {
		name := colNames[symChoice("colname", 3)]
		for _, c := range sch.Columns {
			if c.Name == name {
				dupName = true
			}
		}
		col := sqlTypes.SchemaColumn{Name: name}
		// one of: plain, typed, NOT NULL, typed NOT NULL, UNIQUE, DEFAULT
		switch symChoice("flags", 6) {
		case 1:
			col.DefaultType = "integer"
		case 2:
			col.NotNull = true
		case 3:
			col.DefaultType, col.NotNull = "integer", true
		case 4:
			col.Unique = true
		case 5:
			col.Default = colval.Int(1)
		}
		sch.Columns = append(sch.Columns, col)
	}
	npk := symChoice("npk", 3)
	for i := 0; i < npk; i++ {
		sch.PrimaryKey = append(sch.PrimaryKey, colNames[symChoice("pk", 3)])
	}
	vC20Schema = sch
	t := &VirtualTable{}
	err := convertSchema("ignored", t)
	if vC20ParseErr {
		symAssert(err != nil, "parse-error-rejected")
		symReach("end")
		return
	}
	pkDefined := false
	keyIdx := -1
	if npk > 0 {
		for i, c := range sch.Columns {
			if c.Name == sch.PrimaryKey[0] && keyIdx < 0 {
				pkDefined = true
				keyIdx = i
			}
		}
	}
	bad := npk > 1 || dupName || (npk == 1 && !pkDefined)
	for i, c := range sch.Columns {
		if c.Default != nil {
			bad = true
		}
		if c.Unique && !(npk == 1 && i == keyIdx) {
			bad = true
		}
	}
	if bad {
		symAssert(err != nil, "composite-duplicate-unique-default-rejected")
		symReach("end")
		return
	}
	symAssert(err == nil, "valid-schema-accepted")
	symAssert(t.usesRowID == (npk == 0), "rowid-iff-no-primary-key")
	if npk == 1 {
		symAssert(t.KeyCol == keyIdx, "key-column-index")
	}
	symAssert(len(t.ColumnIndexByName) == nc && len(t.ColumnNameByIndex) == nc, "column-maps-complete")
	for i, c := range sch.Columns {
		symAssert(t.ColumnIndexByName[c.Name] == i && t.ColumnNameByIndex[i] == c.Name, "column-maps-agree-with-order")
	}
	// the declared statement lists the columns in order with their markers
	decl := t.SchemaString
	pos := 0
	for i, c := range sch.Columns {
		want := c.Name
		if c.DefaultType != "" {
			want += " " + c.DefaultType
		}
		if npk == 1 && i == keyIdx {
			want += " PRIMARY KEY"
		}
		if c.NotNull {
			want += " NOT NULL"
		}
		j := strings.Index(decl[pos:], want)
		symAssert(j >= 0, "declared-columns-in-order-with-markers")
		if j < 0 {
			break
		}
		pos += j + len(want)
	}
	symAssert(strings.HasSuffix(decl, ") WITHOUT ROWID"), "declared-without-rowid")
	symReach("accepted")
	symReach("end")
}

// H20c / H06b: a column declared NOT NULL refuses NULL (SQLite does not
// enforce declared constraints on virtual tables, the table has to).
func VerifH_C20_notnull() {
	bkt := vNewBucket()
	vt := vMustOpen(bkt.client(1), vTableOpts{bf: 2}, 10)
	bNotNull := symChoice("b-not-null", 2) == 1
	cNotNull := symChoice("c-not-null", 2) == 1
	vt.schema = &sqlTypes.Schema{
		Columns:    []sqlTypes.SchemaColumn{{Name: "a", NotNull: true}, {Name: "b", NotNull: bNotNull}, {Name: "c", NotNull: cNotNull}},
		PrimaryKey: []string{"a"},
	}
	val := func(name string) interface{} {
		if symChoice(name+"-null", 2) == 1 {
			return nil
		}
		return symInt64(name)
	}
	b, c := val("b"), val("c")
	_, err := vt.Insert(vAt(100), map[int]interface{}{0: int64(1), 1: b, 2: c})
	violates := (bNotNull && b == nil) || (cNotNull && c == nil)
	if violates {
		symAssert(err == ErrS3DBConstraintNotNull, "insert-of-null-into-not-null-column-refused")
		ok, _ := vHas(vt, int64(1))
		symAssert(!ok, "refused-insert-leaves-no-row")
	} else {
		symAssert(err == nil, "insert-ok")
		// a row that breaks NOT NULL and the key constraint at once is
		// reported as NOT NULL (SQLite checks NOT NULL first)
		if bNotNull {
			_, err := vt.Insert(vAt(150), map[int]interface{}{0: int64(1), 1: nil, 2: c})
			symAssert(err == ErrS3DBConstraintNotNull, "not-null-reported-before-the-key-constraint")
		}
		// UPDATE assigning NULL to a NOT NULL column is refused as well and changes nothing
		before, _ := vScan(vt)
		err := vt.Update(vAt(200), int64(1), map[int]interface{}{1: nil})
		if bNotNull {
			symAssert(err == ErrS3DBConstraintNotNull, "update-to-null-of-not-null-column-refused")
			after, _ := vScan(vt)
			symAssert(vRowsEq(before, after), "refused-update-changes-nothing")
		} else {
			symAssert(err == nil, "update-ok")
		}
	}
	symReach("end")
}

// H20d: a table without a PRIMARY KEY gets a hidden key column in front of
// the declared ones, so SQLite's column i is the (i-1)-th declared column:
// NOT NULL applies to the column it was declared on, and the values come back
// in the declared order.
func VerifH_C20_rowid() {
	symStub("parseSchema", true)
	aNotNull := symChoice("a-not-null", 2) == 1
	bNotNull := symChoice("b-not-null", 2) == 1
	vC20Schema = &sqlTypes.Schema{Columns: []sqlTypes.SchemaColumn{{Name: "a", NotNull: aNotNull}, {Name: "b", NotNull: bNotNull}}}
	bkt := vNewBucket()
	vt := vMustOpen(bkt.client(1), vTableOpts{bf: 2}, 10)
	symAssert(convertSchema("ignored", vt) == nil, "definition-accepted")
	symAssert(vt.usesRowID, "table-without-key-uses-a-hidden-key")
	val := func(name string) interface{} {
		if symChoice(name+"-null", 2) == 1 {
			return nil
		}
		return symInt64(name)
	}
	a, b := val("a"), val("b")
	// INSERT INTO t(a, b) VALUES (..): the hidden column arrives as NULL
	_, err := vt.Insert(vAt(100), map[int]interface{}{0: nil, 1: a, 2: b})
	violates := (aNotNull && a == nil) || (bNotNull && b == nil)
	rows, serr := vScan(vt)
	symAssert(serr == nil, "scan-ok")
	if violates {
		symAssert(err == ErrS3DBConstraintNotNull, "insert-of-null-into-not-null-column-refused")
		symAssert(len(rows) == 0, "refused-insert-leaves-no-row")
	} else {
		symAssert(err == nil, "insert-ok")
		symAssert(len(rows) == 1, "row-visible")
		if len(rows) == 1 {
			symAssert(symDeepEq(rows[0].b, a), "first-declared-column-reads-back")
			symAssert(symDeepEq(rows[0].c, b), "second-declared-column-reads-back")
		}
		// UPDATE t SET b = NULL
		key := rows[0].k
		err := vt.Update(vAt(200), key, map[int]interface{}{2: nil})
		if bNotNull {
			symAssert(err == ErrS3DBConstraintNotNull, "update-to-null-of-not-null-column-refused")
		} else {
			symAssert(err == nil, "update-ok")
		}
	}
	symReach("end")
}
