package s3db

// C14 — storage faults surface as errors; never as wrong answers, hangs or crashes.

import "time"

// vC14Bucket: a table with keys 1..5 (depth 2) plus, for the merge scenarios,
// a second unmerged version with key 9.
func vC14Bucket(unmerged bool) *vBucket {
	bkt := vNewBucket()
	w := vMustOpen(bkt.client(9), vTableOpts{bf: 2}, 10)
	for k := 1; k <= 5; k++ {
		if err := vIns(w, int64(100+k), int64(k), int64(k*10), nil); err != nil {
			panic(err)
		}
	}
	if err := w.Commit(vCtx); err != nil {
		panic(err)
	}
	if unmerged {
		ob := vNewBucket()
		o := vMustOpen(ob.client(8), vTableOpts{bf: 2}, 11)
		if err := vIns(o, 200, int64(9), int64(90), nil); err != nil {
			panic(err)
		}
		if err := o.Commit(vCtx); err != nil {
			panic(err)
		}
		for k, v := range ob.objs {
			bkt.objs[k] = v
		}
	}
	return bkt
}

// one scenario run; returns (rows observed or nil, error, acknowledged write key or 0)
func vC14Run(bkt *vBucket, scenario int) ([]vRow, error, int64) {
	switch scenario {
	case 0: // open (read-only) + full scan
		r, err := vOpen(bkt.client(1), vTableOpts{bf: 2, readOnly: true}, 500)
		if err != nil {
			return nil, err, 0
		}
		rows, err := vScan(r)
		return rows, err, 0
	case 1: // writable open (merge-on-open commit) + scan
		r, err := vOpen(bkt.client(1), vTableOpts{bf: 2}, 500)
		if err != nil {
			return nil, err, 0
		}
		rows, err := vScan(r)
		return rows, err, 0
	case 2: // open, insert, commit, scan
		r, err := vOpen(bkt.client(1), vTableOpts{bf: 2}, 500)
		if err != nil {
			return nil, err, 0
		}
		if err := vIns(r, 1000, int64(6), int64(60), nil); err != nil {
			return nil, err, 0
		}
		if err := r.Commit(vCtx); err != nil {
			return nil, err, 0
		}
		rows, err := vScan(r)
		return rows, err, 6
	case 3: // point lookups + descending-free range scan
		r, err := vOpen(bkt.client(1), vTableOpts{bf: 2, readOnly: true}, 500)
		if err != nil {
			return nil, err, 0
		}
		rows, err := vScanIdx(r, "asc  4", []interface{}{int64(2)})
		return rows, err, 0
	case 4: // vacuum + scan
		r, err := vOpen(bkt.client(1), vTableOpts{bf: 2}, 500)
		if err != nil {
			return nil, err, 0
		}
		tables["t"] = r
		if err := Vacuum(vCtx, "t", time.Unix(0, 1<<40)); err != nil {
			return nil, err, 0
		}
		rows, err := vScan(r)
		return rows, err, 0
	}
	return nil, nil, 0
}

func VerifH_C14_faults() {
	scenario := symChoice("scenario", 5)
	unmerged := symChoice("unmerged", 2) == 1
	// reference: fault-free
	ref := vC14Bucket(unmerged)
	r0 := ref.reqs
	want, err, _ := vC14Run(ref, scenario)
	symAssert(err == nil, "reference-run-ok")
	nreq := ref.reqs - r0
	symObserve("requests", nreq)
	all, err := vFreshRows(ref)
	symAssert(err == nil, "reference-final-open-ok")

	bkt := vC14Bucket(unmerged)
	committed, err := vFreshRows(bkt)
	symAssert(err == nil, "committed-readable")
	f := symInt("fault")
	symAssume(f >= 0)
	symAssume(f < nreq)
	bkt.faultOn, bkt.faultAt = true, bkt.reqs+f
	bkt.faultDeadline = symChoice("kind", symParam("kinds", 2)) == 1 // transport error | expired deadline
	bkt.faultPersistent = symChoice("persistent", 2) == 1
	got, gerr, wrote := vC14Run(bkt, scenario)
	bkt.faultOn = false
	symObserve("failed", gerr != nil)
	// an error or the complete, correct result; never a silently truncated one
	if gerr == nil {
		symAssert(vRowsEq(got, want), "result-complete-or-error")
	}
	// once the fault clears a new connection sees all previously committed data...
	after, err := vFreshRows(bkt)
	symAssert(err == nil, "open-after-fault-clears-ok")
	for _, c := range committed {
		found := false
		for _, a := range after {
			if symDeepEq(a.k, c.k) {
				found = true
				symAssert(symDeepEq(a.b, c.b), "committed-row-unchanged-after-fault")
			}
		}
		symAssert(found, "committed-row-visible-after-fault")
	}
	// ... an acknowledged write is among them
	if gerr == nil && wrote != 0 {
		symAssert(vRowsEq(after, all), "acknowledged-write-visible-after-fault")
	}
	// ... and it can write again
	w, err := vOpen(bkt.client(3), vTableOpts{bf: 2}, 800)
	symAssert(err == nil, "writable-open-after-fault-ok")
	symAssert(vIns(w, 5000, int64(77), int64(7), nil) == nil, "insert-after-fault-ok")
	symAssert(w.Commit(vCtx) == nil, "commit-after-fault-ok")
	symReach("end")
}
