package s3db

// C14 — storage faults surface as errors; never as wrong answers, hangs or crashes.

import "time"

// vC14Bucket: a table with keys 1..5 (depth 2) plus, for the merge scenarios,
// a second unmerged version with key 9.
func vC14Bucket(unmerged bool) *vBucket {
	bkt := vNewBucket()
	w := vMustOpen(bkt.client(9), vTableOpts{bf: 2}, 10)
	for k := 1; k <= 5; k++ {
		if err := vIns(w, int64(100+k), int64(k), int64(k*10), nil); err != nil {
			panic(err)
		}
	}
	if err := w.Commit(vCtx); err != nil {
		panic(err)
	}
	if vC14History {
		// two more versions: a row comes and goes, so that a vacuum takes the
		// tree back to the content (and the node objects) of the first version
		if err := vIns(w, 300, int64(6), int64(60), nil); err != nil {
			panic(err)
		}
		if err := w.Commit(vCtx); err != nil {
			panic(err)
		}
		if err := w.Delete(vAt(400), int64(6)); err != nil {
			panic(err)
		}
		if err := w.Commit(vCtx); err != nil {
			panic(err)
		}
	}
	if unmerged {
		ob := vNewBucket()
		o := vMustOpen(ob.client(8), vTableOpts{bf: 2}, 11)
		if err := vIns(o, 200, int64(9), int64(90), nil); err != nil {
			panic(err)
		}
		if err := o.Commit(vCtx); err != nil {
			panic(err)
		}
		for k, v := range ob.objs {
			bkt.objs[k] = v
		}
	}
	return bkt
}

// one scenario run; returns (rows observed or nil, error, acknowledged write key or 0)
func vC14Run(bkt *vBucket, scenario int) ([]vRow, error, int64) {
	switch scenario {
	case 0: // open (read-only) + full scan
		r, err := vOpen(bkt.client(1), vTableOpts{bf: 2, readOnly: true}, 500)
		if err != nil {
			return nil, err, 0
		}
		rows, err := vScan(r)
		return rows, err, 0
	case 1: // writable open (merge-on-open commit) + scan
		r, err := vOpen(bkt.client(1), vTableOpts{bf: 2}, 500)
		if err != nil {
			// nothing is left behind that a later garbage collection would
			// trip over (the other handles alive here are committed)
			symRunFinalizers()
			return nil, err, 0
		}
		rows, err := vScan(r)
		return rows, err, 0
	case 2: // open, insert, commit, scan
		r, err := vOpen(bkt.client(1), vTableOpts{bf: 2}, 500)
		if err != nil {
			return nil, err, 0
		}
		if err := vIns(r, 1000, int64(6), int64(60), nil); err != nil {
			return nil, err, 0
		}
		if err := r.Commit(vCtx); err != nil {
			return nil, err, 0
		}
		rows, err := vScan(r)
		return rows, err, 6
	case 3: // point lookups + descending-free range scan
		r, err := vOpen(bkt.client(1), vTableOpts{bf: 2, readOnly: true}, 500)
		if err != nil {
			return nil, err, 0
		}
		rows, err := vScanIdx(r, "asc  4", []interface{}{int64(2)})
		return rows, err, 0
	case 4: // vacuum + scan
		r, err := vOpen(bkt.client(1), vTableOpts{bf: 2}, 500)
		if err != nil {
			return nil, err, 0
		}
		tables["t"] = r
		vC14Handle = r
		if err := Vacuum(vCtx, "t", time.Unix(0, 1<<40)); err != nil {
			return nil, err, 0
		}
		rows, err := vScan(r)
		return rows, err, 0
	case 5: // descending scan below a bound that lies above every key (the cursor is re-seated at the last key)
		r, err := vOpen(bkt.client(1), vTableOpts{bf: 2, readOnly: true}, 500)
		if err != nil {
			return nil, err, 0
		}
		rows, err := vScanIdx(r, "desc 2", []interface{}{int64(100)})
		return rows, err, 0
	case 7: // open, UPDATE an existing row, commit, scan
		r, err := vOpen(bkt.client(1), vTableOpts{bf: 2}, 500)
		if err != nil {
			return nil, err, 0
		}
		if err := r.Update(vAt(1000), int64(3), map[int]interface{}{1: int64(99)}); err != nil {
			r.Tree.Root.Cancel()
			return nil, err, 0
		}
		if err := r.Commit(vCtx); err != nil {
			r.Tree.Root.Cancel()
			return nil, err, 0
		}
		rows, err := vScan(r)
		return rows, err, 3
	case 6: // a transaction: begin, insert, commit (the caller rolls back when it fails)
		r, err := vOpen(bkt.client(1), vTableOpts{bf: 2}, 500)
		if err != nil {
			return nil, err, 0
		}
		if err := r.Begin(vCtx); err != nil {
			return nil, err, 0
		}
		vC14Handle = r
		if err := vIns(r, 1000, int64(6), int64(60), nil); err != nil {
			return nil, err, 0
		}
		if err := r.Commit(vCtx); err != nil {
			vC14CommitFailed = true
			return nil, err, 0
		}
		rows, err := vScan(r)
		return rows, err, 6
	}
	return nil, nil, 0
}

var vC14Handle *VirtualTable
var vC14History bool
var vC14CommitFailed bool

func VerifH_C14_faults() {
	vC14Handle = nil
	scenario := symChoice("scenario", 8)
	unmerged := symChoice("unmerged", 2) == 1
	vC14History = scenario == 4 && symChoice("history", 2) == 1
	// reference: fault-free
	ref := vC14Bucket(unmerged)
	r0 := ref.reqs
	want, err, _ := vC14Run(ref, scenario)
	symAssert(err == nil, "reference-run-ok")
	nreq := ref.reqs - r0
	symObserve("requests", nreq)
	all, err := vFreshRows(ref)
	symAssert(err == nil, "reference-final-open-ok")

	bkt := vC14Bucket(unmerged)
	committed, err := vFreshRows(bkt)
	symAssert(err == nil, "committed-readable")
	f := symInt("fault")
	symAssume(f >= 0)
	symAssume(f < nreq)
	bkt.faultOn, bkt.faultAt = true, bkt.reqs+f
	bkt.faultDeadline = symChoice("kind", symParam("kinds", 2)) == 1 // transport error | expired deadline
	bkt.faultPersistent = symChoice("persistent", 2) == 1
	vC14Handle, vC14CommitFailed = nil, false
	got, gerr, wrote := vC14Run(bkt, scenario)
	bkt.faultOn = false
	symObserve("failed", gerr != nil)
	// an error or the complete, correct result; never a silently truncated one
	if gerr == nil {
		symAssert(vRowsEq(got, want), "result-complete-or-error")
	}
	if scenario == 6 && vC14CommitFailed {
		// the failed transaction is rolled back (SQLite calls xRollback): the
		// connection shows the rows it had before, and the same transaction
		// goes through once the fault is gone
		r := vC14Handle
		symAssert(r.Rollback() == nil, "rollback-ok")
		rows, err := vScan(r)
		symAssert(err == nil, "scan-after-rollback-ok")
		for _, x := range rows {
			symAssert(!symDeepEq(x.k, int64(6)), "failed-transaction-leaves-no-row-behind")
		}
		symAssert(r.Begin(vCtx) == nil, "begin-again-ok")
		symAssert(vIns(r, 1000, int64(6), int64(60), nil) == nil, "insert-again-ok")
		symAssert(r.Commit(vCtx) == nil, "commit-again-ok")
		again, err := vFreshRows(bkt)
		symAssert(err == nil, "open-after-retry-ok")
		symAssert(vRowsEq(again, all), "retried-transaction-visible")
		symReach("retried")
	}
	if scenario == 4 && vC14Handle != nil {
		// the connection that ran the vacuum (failed or not) writes again:
		// a commit it gets acknowledged is complete in the bucket (C16)
		r := vC14Handle
		if vIns(r, 6000, int64(0), int64(80), nil) == nil && r.Commit(vCtx) == nil {
			again, err := vFreshRows(bkt)
			symAssert(err == nil, "version-committed-after-the-vacuum-is-readable")
			seen := false
			for _, x := range again {
				if symDeepEq(x.k, int64(0)) {
					seen = true
				}
			}
			symAssert(seen, "write-acknowledged-after-the-vacuum-is-visible")
			symReach("wrote-after-vacuum")
		} else {
			r.Tree.Root.Cancel()
		}
	}
	// once the fault clears a new connection sees all previously committed data...
	after, err := vFreshRows(bkt)
	symAssert(err == nil, "open-after-fault-clears-ok")
	for _, c := range committed {
		found := false
		for _, a := range after {
			if symDeepEq(a.k, c.k) {
				found = true
				if scenario == 7 && symDeepEq(c.k, int64(3)) {
					continue // the row the scenario updates (an update that reported failure may still have been stored)
				}
				symAssert(symDeepEq(a.b, c.b), "committed-row-unchanged-after-fault")
			}
		}
		symAssert(found, "committed-row-visible-after-fault")
	}
	// ... an acknowledged write is among them
	if gerr == nil && wrote != 0 {
		symAssert(vRowsEq(after, all), "acknowledged-write-visible-after-fault")
	}
	// ... and it can write again
	w, err := vOpen(bkt.client(3), vTableOpts{bf: 2}, 800)
	symAssert(err == nil, "writable-open-after-fault-ok")
	symAssert(vIns(w, 5000, int64(77), int64(7), nil) == nil, "insert-after-fault-ok")
	symAssert(w.Commit(vCtx) == nil, "commit-after-fault-ok")
	symReach("end")
}
