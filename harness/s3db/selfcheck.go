package s3db

// Translator validation with the repository's own unit-test inputs
// (vtable_common_test.go, key_test.go): the same cases, with the clock
// symbolic, run on the interpreter and natively; the observations must agree
// and the tests' expectations must hold for every instant.

import (
	"strings"
	"unicode/utf8"
	"time"

	v1proto "github.com/jrhy/s3db/proto/v1"
	"google.golang.org/protobuf/types/known/durationpb"
)

func VerifH_selfcheck_mergerows() {
	n := symInt64("tm")
	symAssume(n > 1<<40)
	symAssume(n < 1<<61)
	tm := time.Unix(0, n)
	sec := func(s int64) time.Time { return tm.Add(time.Duration(s) * time.Second) }
	col := func(txt string, off time.Duration) *v1proto.ColumnValue {
		return &v1proto.ColumnValue{Value: toSQLiteValue(txt), UpdateOffset: durationpb.New(off)}
	}
	// TestMergeRows_LastDeleteWins
	r := MergeRows(nil,
		sec(-1000), &v1proto.Row{Deleted: true, DeleteUpdateOffset: durationpb.New(time.Hour)},
		sec(-2000), &v1proto.Row{Deleted: true, DeleteUpdateOffset: durationpb.New(2 * time.Hour)}, tm)
	symAssert(r.Deleted, "last-delete-wins")
	symAssert(tm.Add(r.DeleteUpdateOffset.AsDuration()).Equal(tm.Add(2*time.Hour).Add(-2000*time.Second)), "last-delete-time")
	symObserve("ldw_offset", int64(r.DeleteUpdateOffset.AsDuration()))
	// TestMergeRows_LastWriteWins
	r = MergeRows(nil,
		sec(-1000), &v1proto.Row{ColumnValues: map[string]*v1proto.ColumnValue{"col": col("hi", time.Hour)}},
		sec(-2000), &v1proto.Row{ColumnValues: map[string]*v1proto.ColumnValue{"col": col("there", 2*time.Hour)}}, tm)
	symAssert(len(r.ColumnValues) == 1, "lww-one-column")
	symAssert(r.ColumnValues["col"].Value.Text == "there", "lww-value")
	symObserve("lww_text", r.ColumnValues["col"].Value.Text)
	symObserve("lww_offset", int64(r.ColumnValues["col"].UpdateOffset.AsDuration()))
	// TestMergeRows_UnifyColumns
	r = MergeRows(nil,
		sec(-1000), &v1proto.Row{ColumnValues: map[string]*v1proto.ColumnValue{"col0": col("hi", time.Hour)}},
		sec(-2000), &v1proto.Row{ColumnValues: map[string]*v1proto.ColumnValue{"col1": col("there", 2*time.Hour)}}, tm)
	symAssert(len(r.ColumnValues) == 2, "unify-two-columns")
	symAssert(UpdateTime(tm, r.ColumnValues["col0"]).Equal(sec(-1000).Add(time.Hour)), "unify-col0-time")
	symAssert(UpdateTime(tm, r.ColumnValues["col1"]).Equal(sec(-2000).Add(2*time.Hour)), "unify-col1-time")
	symObserve("unify_off0", int64(r.ColumnValues["col0"].UpdateOffset.AsDuration()))
	symObserve("unify_off1", int64(r.ColumnValues["col1"].UpdateOffset.AsDuration()))
	// TestMergeRows_InsertAfterDelete
	r = MergeRows(nil,
		sec(-1000), &v1proto.Row{Deleted: true, DeleteUpdateOffset: durationpb.New(time.Hour),
			ColumnValues: map[string]*v1proto.ColumnValue{"getnulledonnextinsert": col("hi", time.Hour)}},
		sec(-2000), &v1proto.Row{DeleteUpdateOffset: durationpb.New(2 * time.Hour),
			ColumnValues: map[string]*v1proto.ColumnValue{"version2": col("there", 2*time.Hour)}}, tm)
	symAssert(len(r.ColumnValues) == 1 && r.ColumnValues["getnulledonnextinsert"] == nil, "insert-after-delete-hides-old-column")
	symAssert(r.ColumnValues["version2"].Value.Text == "there", "insert-after-delete-value")
	symObserve("iad_deleted", r.Deleted)
	symObserve("iad_off", int64(r.ColumnValues["version2"].UpdateOffset.AsDuration()))
	// TestToSQLiteValue
	symAssert(toSQLiteValue("").Type == v1proto.Type_TEXT && toSQLiteValue("").Text == "", "empty-text-value")
	symAssert(toSQLiteValue([]byte{}).Type == v1proto.Type_BLOB, "empty-blob-value")
	// TestSortOrder (key_test.go): NULL is not comparable; the others in class order
	ks := []*Key{NewKey(int64(3)), NewKey(4.5), NewKey("a"), NewKey([]byte("a"))}
	for i := range ks {
		for j := range ks {
			o := ks[i].Order(ks[j])
			symObserve("order", o)
			symAssert((o < 0) == (i < j) && (o == 0) == (i == j), "class-order")
		}
	}
	symReach("end")
}

// The UTF-8 model (symbolic decoding in the engine) against the real
// unicode/utf8 and strings code: every sample path is replayed natively and
// the observations must agree.
func VerifH_selfcheck_utf8() {
	n := symChoice("len", symParam("maxlen", 3)+1)
	s := symString("s", n)
	valid := utf8.ValidString(s)
	runes, bad := 0, 0
	for _, r := range s {
		runes++
		if r == utf8.RuneError {
			bad++
		}
	}
	fixed := strings.ToValidUTF8(s, "?")
	symObserve("valid", valid)
	symObserve("runes", runes)
	symObserve("bad", bad)
	symObserve("fixedlen", len(fixed))
	if valid {
		symAssert(fixed == s, "valid-text-is-left-alone")
		symAssert(utf8.RuneCountInString(s) == runes, "rune-count")
	} else {
		symAssert(fixed != s, "invalid-text-is-changed")
		symAssert(bad > 0, "invalid-text-has-a-bad-sequence")
		symReach("invalid")
	}
	symAssert(utf8.ValidString(fixed), "result-is-valid")
	symReach("end")
}
