package s3db

// C05 — transactions are atomic and isolated.

func vC05Table(bkt *vBucket) *VirtualTable {
	w := vMustOpen(bkt.client(1), vTableOpts{bf: 2}, 10)
	if symChoice("empty-at-begin", 2) == 1 {
		return w // a brand-new table: nothing stored yet
	}
	for k := 1; k <= 4; k++ {
		if err := vIns(w, int64(100+k), int64(k), int64(k*10), nil); err != nil {
			panic(err)
		}
	}
	if err := w.Commit(vCtx); err != nil {
		panic(err)
	}
	return w
}

// one statement of the transaction; returns false if it failed with a
// constraint error (SQLite then rolls back the statement, which changed nothing)
func vC05Stmt(w *VirtualTable, kind int, t int64) {
	switch kind {
	case 0: // insert a fresh key (a duplicate if an earlier statement inserted it)
		had, _ := vHas(w, int64(6))
		err := vIns(w, t, int64(6), int64(60), nil)
		if had {
			symAssert(err == ErrS3DBConstraintPrimaryKey, "duplicate-key-refused")
		} else {
			symAssert(err == nil, "insert-ok")
		}
		ok, err := vHas(w, int64(6))
		symAssert(err == nil && ok, "reads-own-insert")
	case 1: // insert an existing key: constraint failure, nothing changes
		had, _ := vHas(w, int64(2))
		err := vIns(w, t, int64(2), int64(99), nil)
		if had {
			symAssert(err == ErrS3DBConstraintPrimaryKey, "duplicate-key-refused")
		} else {
			symAssert(err == nil, "insert-ok")
		}
	case 2: // update
		if had, _ := vHas(w, int64(2)); !had {
			return // SQLite finds no row to update
		}
		symAssert(w.Update(vAt(t), int64(2), map[int]interface{}{1: int64(21)}) == nil, "update-ok")
		rows, err := vScanIdx(w, "asc  1", []interface{}{int64(2)})
		symAssert(err == nil, "read-after-update-ok")
		symAssert(len(rows) == 1 && rows[0].b == int64(21), "reads-own-update")
	case 3: // delete
		if had, _ := vHas(w, int64(3)); !had {
			return
		}
		symAssert(w.Delete(vAt(t), int64(3)) == nil, "delete-ok")
		ok, err := vHas(w, int64(3))
		symAssert(err == nil && !ok, "reads-own-delete")
	case 4: // insert a key that grows the tree (layer 3 with entries_per_node 2)
		had, _ := vHas(w, int64(8))
		err := vIns(w, t, int64(8), int64(80), nil)
		if had {
			symAssert(err == ErrS3DBConstraintPrimaryKey, "duplicate-key-refused")
		} else {
			symAssert(err == nil, "insert-ok")
		}
	}
}

func VerifH_C05_txn() {
	bkt := vNewBucket()
	w := vC05Table(bkt)
	pre, err := vScan(w)
	symAssert(err == nil, "pre-scan-ok")
	m0 := bkt.muts
	_ = m0
	roots0 := bkt.names(vPrefix + "/root/")
	cur0 := bkt.names(vPrefix + "/root/current/")
	symAssert(w.Begin(vCtx) == nil, "begin-ok")
	n := 1 + symChoice("nstmts", symParam("maxstmts", 2))
	for i := 0; i < n; i++ {
		vC05Stmt(w, symChoice("kind", 5), int64(1000+i))
	}
	inTxn, err := vScan(w)
	symAssert(err == nil, "in-txn-scan-ok")
	// nothing leaks before commit
	outside, err := vFreshRows(bkt)
	symAssert(err == nil, "outside-open-ok")
	symAssert(vRowsEq(outside, pre), "nothing-visible-outside-before-commit")
	symAssert(symDeepEq(bkt.names(vPrefix+"/root/"), roots0), "no-version-stored-before-commit")
	switch symChoice("outcome", 3) {
	case 0: // ROLLBACK
		symAssert(w.Rollback() == nil, "rollback-ok")
		vC05RolledBack(w, bkt, pre, roots0)
	case 1: // COMMIT
		symAssert(w.Commit(vCtx) == nil, "commit-ok")
		symAssert(w.txStart == nil, "commit-ends-transaction")
		cur1 := bkt.names(vPrefix + "/root/current/")
		symAssert(len(cur1) <= 1, "at-most-one-current-version")
		after, err := vScan(w)
		symAssert(err == nil, "post-commit-scan-ok")
		symAssert(vRowsEq(after, inTxn), "commit-keeps-transaction-effects")
		other, err := vFreshRows(bkt)
		symAssert(err == nil, "other-open-ok")
		symAssert(vRowsEq(other, inTxn), "others-see-all-effects")
		if vRowsEq(inTxn, pre) {
			symAssert(symDeepEq(cur0, cur1), "no-op-transaction-writes-no-version")
		}
		symAssert(w.Begin(vCtx) == nil, "next-begin-ok")
	case 2: // COMMIT fails on a storage error at a symbolic request, SQLite then calls xRollback
		f := symInt("fault")
		symAssume(f >= 0)
		symAssume(f < 12)
		bkt.faultOn, bkt.faultAt, bkt.faultPersistent = true, bkt.reqs+f, true
		cerr := w.Commit(vCtx)
		bkt.faultOn = false
		if cerr != nil {
			symAssert(w.Rollback() == nil, "rollback-after-failed-commit-ok")
			rows, err := vScan(w)
			symAssert(err == nil, "scan-after-failed-commit-ok")
			symAssert(vRowsEq(rows, pre), "failed-commit-rolls-back")
			other, err := vFreshRows(bkt)
			symAssert(err == nil, "other-open-after-failed-commit-ok")
			symAssert(vRowsEq(other, pre), "failed-commit-publishes-nothing")
			symAssert(w.txStart == nil, "failed-commit-ends-transaction")
			symReach("commit-failed")
		} else {
			other, err := vFreshRows(bkt)
			symAssert(err == nil, "other-open-ok")
			symAssert(vRowsEq(other, inTxn), "acknowledged-commit-visible-to-others")
		}
	}
	symReach("end")
}

func vC05RolledBack(w *VirtualTable, bkt *vBucket, pre []vRow, roots0 []string) {
	rows, err := vScan(w)
	symAssert(err == nil, "scan-after-rollback-ok")
	symAssert(vRowsEq(rows, pre), "rollback-restores-rows")
	symAssert(symDeepEq(bkt.names(vPrefix+"/root/"), roots0), "rollback-leaves-no-new-version")
	symAssert(w.txStart == nil, "rollback-ends-transaction")
	symAssert(w.Begin(vCtx) == nil, "next-begin-ok")
	symAssert(w.Rollback() == nil, "second-rollback-ok")
	// a commit after the rollback publishes nothing of the rolled-back transaction
	symAssert(w.Commit(vCtx) == nil, "commit-after-rollback-ok")
	other, err := vFreshRows(bkt)
	symAssert(err == nil, "other-open-ok")
	symAssert(vRowsEq(other, pre), "rolled-back-writes-never-published")
}

// H06c / H05c: the statements of one transaction share one write time (that is
// what the connection does); a single writer must still see them applied in
// statement order, like the same statements on a plain table.
func VerifH_C06_txn_same_time() {
	bkt := vNewBucket()
	w := vMustOpen(bkt.client(1), vTableOpts{bf: 2}, 10)
	pre := symChoice("row-exists-before", 2) == 1
	if pre {
		symAssert(vIns(w, 50, int64(1), int64(5), int64(6)) == nil, "insert-ok")
		symAssert(w.Commit(vCtx) == nil, "commit-ok")
	}
	t := symInt64("t")
	symAssume(vTimeOK(t))
	symAssume(t > 50)
	symAssert(w.Begin(vCtx) == nil, "begin-ok")
	// reference: what a plain table holds
	live, rb, rc := pre, interface{}(int64(5)), interface{}(int64(6))
	n := symParam("stmts", 2)
	for i := 0; i < n; i++ {
		if i == 1 {
			symEvent("second-statement-with-the-transactions-write-time")
		}
		switch symChoice("stmt", 4) {
		case 0: // INSERT
			err := vIns(w, t, int64(1), int64(10+i), int64(20+i))
			if live {
				symAssert(err == ErrS3DBConstraintPrimaryKey, "duplicate-key-refused")
			} else {
				symAssert(err == nil, "insert-accepted-like-plain-sqlite")
				live, rb, rc = true, int64(10+i), int64(20+i)
			}
		case 1: // UPDATE b
			if live {
				symAssert(w.Update(vAt(t), int64(1), map[int]interface{}{1: int64(30 + i)}) == nil, "update-ok")
				rb = int64(30 + i)
			}
		case 2: // UPDATE c
			if live {
				symAssert(w.Update(vAt(t), int64(1), map[int]interface{}{2: int64(40 + i)}) == nil, "update-ok")
				rc = int64(40 + i)
			}
		case 3: // DELETE
			if live {
				symAssert(w.Delete(vAt(t), int64(1)) == nil, "delete-ok")
				live = false
			}
		}
		rows, err := vScan(w)
		symAssert(err == nil, "scan-ok")
		symAssert((len(rows) == 1) == live, "row-presence-like-plain-sqlite")
		if live && len(rows) == 1 {
			symAssert(symDeepEq(rows[0].b, rb) && symDeepEq(rows[0].c, rc), "reads-own-writes-in-statement-order")
		}
	}
	symReach("end")
}
