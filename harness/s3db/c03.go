package s3db

// C03 — concurrent open and commit never hide or lose a committed version.
// Every object-store request of the clients is a scheduling point; the choice
// of which client proceeds is explored exhaustively (deterministic fibers,
// group-level scheduling, DESIGN §2.3).

func vKeysOf(rows []vRow) map[int64]bool {
	m := map[int64]bool{}
	for _, r := range rows {
		m[r.k.(int64)] = true
	}
	return m
}

// H03 variant 1: A holds a handle on v0 (key 1), writes key 2 and commits
// while B opens (read-only or writable) and scans.
func VerifH_C03_open_vs_commit() {
	bkt := vNewBucket()
	w := vMustOpen(bkt.client(9), vTableOpts{bf: 2}, 10)
	if err := vIns(w, 100, int64(1), int64(10), nil); err != nil {
		panic(err)
	}
	if err := w.Commit(vCtx); err != nil {
		panic(err)
	}
	a := vMustOpen(bkt.client(1), vTableOpts{bf: 2}, 20) // A's handle on v0
	bWritable := symChoice("opener-writable", 2) == 1
	bkt.sched = true
	var bKeys map[int64]bool
	var bErr error
	bDone, aAcked := false, false
	symSpawn(1, func() {
		if err := vIns(a, 200, int64(2), int64(20), nil); err != nil {
			panic(err)
		}
		if err := a.Commit(vCtx); err == nil {
			aAcked = true
		}
	})
	symSpawn(2, func() {
		b, err := vOpen(bkt.client(2), vTableOpts{bf: 2, readOnly: !bWritable}, 30)
		if err != nil {
			bErr = err
			bDone = true
			return
		}
		rows, err := vScan(b)
		bKeys, bErr = vKeysOf(rows), err
		bDone = true
	})
	symJoin()
	bkt.sched = false
	symAssert(bDone, "opener-finished")
	if bErr == nil {
		// v0 was committed before the open began: the opener's view contains it
		symAssert(bKeys[1], "opener-sees-every-version-committed-before-its-open")
		symAssert(len(bKeys) > 0, "committed-table-never-seen-empty")
	}
	// afterwards: every acknowledged commit is in the merged view of later opens
	rows, err := vFreshRows(bkt)
	symAssert(err == nil, "later-open-ok")
	ks := vKeysOf(rows)
	symAssert(ks[1], "earlier-commit-not-lost")
	if !aAcked {
		// a commit that was refused (no implementation is obliged to accept it
		// under contention) promises nothing
		symReach("end")
		return
	}
	symAssert(ks[2], "acknowledged-commit-not-lost")
	rw, err := vOpen(bkt.client(3), vTableOpts{bf: 2}, 40)
	symAssert(err == nil, "later-writable-open-ok")
	rows2, err := vScan(rw)
	symAssert(err == nil, "later-writable-scan-ok")
	ks2 := vKeysOf(rows2)
	symAssert(ks2[1] && ks2[2], "merged-view-keeps-every-acknowledged-commit")
	rows3, err := vFreshRows(bkt)
	symAssert(err == nil, "final-open-ok")
	ks3 := vKeysOf(rows3)
	symAssert(ks3[1] && ks3[2], "nothing-disappears-permanently")
	symReach("end")
}

// H03 variant 2: two unmerged versions (keys 1 and 2); A and B both open
// writable concurrently (two merge-on-open commits), then C opens.
func VerifH_C03_two_mergers() {
	bkt := vNewBucket()
	for v := 0; v < 2; v++ {
		w := vMustOpen(vForkInto(bkt, v), vTableOpts{bf: 2}, int64(10+v))
		if err := vIns(w, int64(100+v), int64(v+1), int64(v), nil); err != nil {
			panic(err)
		}
		if err := w.Commit(vCtx); err != nil {
			panic(err)
		}
	}
	vMergeForks(bkt)
	bkt.sched = true
	var errs [2]error
	var keys [2]map[int64]bool
	for i := 0; i < 2; i++ {
		i := i
		symSpawn(1+i, func() {
			h, err := vOpen(bkt.client(1+i), vTableOpts{bf: 2}, int64(30+i))
			if err != nil {
				errs[i] = err
				return
			}
			rows, err := vScan(h)
			keys[i], errs[i] = vKeysOf(rows), err
		})
	}
	symJoin()
	bkt.sched = false
	for i := 0; i < 2; i++ {
		if errs[i] == nil {
			symAssert(keys[i][1] && keys[i][2], "opener-sees-every-version-committed-before-its-open")
		}
	}
	rows, err := vFreshRows(bkt)
	symAssert(err == nil, "later-open-ok")
	ks := vKeysOf(rows)
	symAssert(ks[1] && ks[2], "nothing-disappears-permanently")
	symReach("end")
}

// H03 (listing): an opener sees every current version also when the store
// answers the listing in several pages.
func VerifH_C03_paged_list() {
	bkt := vNewBucket()
	nv := 3
	for v := 0; v < nv; v++ {
		w := vMustOpen(vForkInto(bkt, v), vTableOpts{bf: 2}, int64(10+v))
		if err := vIns(w, int64(100+v), int64(v+1), int64(v), nil); err != nil {
			panic(err)
		}
		if err := w.Commit(vCtx); err != nil {
			panic(err)
		}
	}
	vMergeForks(bkt)
	bkt.pageSize = symChoice("page-size", 3) // 0 = one page, 1, 2
	// optionally one of the listed versions is vacuumed away by somebody else
	// right after the listing: the opener passes over it and keeps the others
	gone := symChoice("vanishes", nv+1) - 1
	if gone >= 0 {
		bkt.afterList = func() {
			names := bkt.names(vPrefix + "/root/current/")
			if gone < len(names) {
				delete(bkt.objs, names[gone])
			}
		}
	}
	writable := symChoice("writable", 2) == 1
	r, err := vOpen(bkt.client(1), vTableOpts{bf: 2, readOnly: !writable}, 50)
	symAssert(err == nil, "open-ok")
	rows, err := vScan(r)
	symAssert(err == nil, "scan-ok")
	ks := vKeysOf(rows)
	if gone < 0 {
		symAssert(ks[1] && ks[2] && ks[3], "every-listed-version-is-merged-whatever-the-page-size")
	} else {
		symAssert(len(ks) >= nv-1, "a-vanished-version-does-not-hide-the-others")
	}
	symReach("end")
}
