package s3db

// Shared harness helpers of package s3db: table construction and scans.

import (
	"context"
	"time"

	"github.com/jrhy/mast"
	"github.com/jrhy/s3db/kv"
	"github.com/jrhy/s3db/kv/crdt"
	v1proto "github.com/jrhy/s3db/proto/v1"
	"github.com/jrhy/s3db/writetime"
	"google.golang.org/protobuf/types/known/durationpb"
)

// ---- tables ----
const vPrefix = "p/s3db-rows"

type vTableOpts struct {
	bf       uint
	readOnly bool
	versions []string
	cache    int
}

// vKVConfig mirrors the configuration OpenKV builds (open.go); the harness
// C13/C16 "openkv" entries check OpenKV itself.
func vKVConfig(o vTableOpts) kv.Config {
	cfg := kv.Config{
		Storage:                      &kv.S3BucketInfo{EndpointURL: "e", BucketName: "b", Prefix: vPrefix},
		KeysLike:                     &Key{},
		ValuesLike:                   &v1proto.Row{},
		CustomMerge:                  mergeValues,
		CustomMarshal:                marshalProto,
		CustomUnmarshal:              unmarshalProto,
		MastNodeFormat:               string(mast.V1Marshaler),
		UnmarshalUsesRegisteredTypes: true,
	}
	if o.bf > 0 {
		cfg.BranchFactor = o.bf
	}
	if o.cache > 0 {
		cfg.NodeCache = newNodeCache(o.cache) // the cache OpenKV configures
	}
	return cfg
}

var vCtx = context.Background()

// vOpen opens a three-column table (a PRIMARY KEY, b, c) on the stub store.
func vOpen(c *vClient, o vTableOpts, when int64) (*VirtualTable, error) {
	db, err := kv.Open(vCtx, c, vKVConfig(o), kv.OpenOptions{ReadOnly: o.readOnly, OnlyVersions: o.versions}, time.Unix(0, when))
	if err != nil {
		return nil, err
	}
	vt := &VirtualTable{Name: "t", Tree: &KV{Root: db}}
	vt.KeyCol = 0
	vt.ColumnNameByIndex = map[int]string{0: "a", 1: "b", 2: "c"}
	vt.ColumnIndexByName = map[string]int{"a": 0, "b": 1, "c": 2}
	vt.S3Options = S3Options{Bucket: "b", Endpoint: "e", Prefix: "p", EntriesPerNode: int(o.bf), ReadOnly: o.readOnly, OnlyVersions: o.versions}
	return vt, nil
}

func vMustOpen(c *vClient, o vTableOpts, when int64) *VirtualTable {
	vt, err := vOpen(c, o, when)
	if err != nil {
		panic(err)
	}
	return vt
}

func vAt(t int64) context.Context {
	return writetime.NewContext(vCtx, time.Unix(0, t))
}

// inTimeRange: the stated time bound (0, 2^62).
func vTimeOK(t int64) bool {
	return symAnd(t > 0, t < 1<<62)
}

// vRow is what a scan shows for one row: key and the two non-key columns.
type vRow struct {
	k    interface{}
	b, c interface{}
}

// vScan runs the cursor protocol (Filter, then Eof/Column/Next) over the whole table.
func vScan(vt *VirtualTable) ([]vRow, error) {
	return vScanIdx(vt, "asc  ", nil)
}

func vScanIdx(vt *VirtualTable, idx string, vals []interface{}) ([]vRow, error) {
	c, err := vt.Open()
	if err != nil {
		return nil, err
	}
	if err := c.Filter(vCtx, idx, vals); err != nil {
		return nil, err
	}
	var out []vRow
	for !c.Eof() {
		var r vRow
		if r.k, err = c.Column(0); err != nil {
			return nil, err
		}
		if r.b, err = c.Column(1); err != nil {
			return nil, err
		}
		if r.c, err = c.Column(2); err != nil {
			return nil, err
		}
		out = append(out, r)
		if err := c.Next(vCtx); err != nil {
			return nil, err
		}
	}
	return out, nil
}

func vRowsEq(a, b []vRow) bool {
	if len(a) != len(b) {
		return false
	}
	var cs []bool
	for i := range a {
		cs = append(cs, symDeepEq(a[i].k, b[i].k), symDeepEq(a[i].b, b[i].b), symDeepEq(a[i].c, b[i].c))
	}
	return symAnd(cs...)
}

// vIns inserts (k, b, c).  With c == nil the row gets the single column b:
// protobuf marshals a map with several entries in random order natively, so
// single-column rows keep node names reproducible in the native replay.
func vIns(vt *VirtualTable, t int64, k interface{}, b, c interface{}) error {
	m := map[int]interface{}{0: k, 1: b}
	if c != nil {
		m[2] = c
	}
	_, err := vt.Insert(vAt(t), m)
	return err
}

// vHas: is the key visible (present and not deleted)?
func vHas(vt *VirtualTable, k interface{}) (bool, error) {
	var row *v1proto.Row
	var rt time.Time
	ok, err := getRow(vCtx, vt, NewKey(k), &row, &rt)
	if err != nil {
		return false, err
	}
	return ok && row != nil && !row.Deleted, nil
}

// vDbg prints an error in the native replay only (diagnostics).
func vDbg(what string, err error) {
	if err != nil && !symIsSymbolic() {
		println("VERIF-DBG", what, err.Error())
	}
}

// short aliases used by harnesses
type (
	mastNodeT          = mast.Node
	crdtValueT         = crdt.Value
	v1protoRow         = v1proto.Row
	v1protoColumnValue = v1proto.ColumnValue
)

func durNew(ns int64) *durationpb.Duration { return durationpb.New(time.Duration(ns)) }

// Unmerged versions: each writer works on its own empty bucket ("fork") so
// that its open does not merge the others; vMergeForks then copies all their
// objects into the shared bucket, which is what concurrent writers that
// started from an empty table leave behind.
var vForks []*vBucket

func vForkInto(b *vBucket, i int) *vClient {
	if i == 0 {
		vForks = nil
	}
	f := vNewBucket()
	vForks = append(vForks, f)
	return f.client(10 + i)
}

func vMergeForks(b *vBucket) {
	for _, f := range vForks {
		for k, v := range f.objs {
			b.objs[k] = v
		}
	}
	vForks = nil
}
