package s3db

// C07 — key order is total, matches SQLite; equal keys are one key.

import (
	v1proto "github.com/jrhy/s3db/proto/v1"
)

const (
	vcINT = iota
	vcREAL
	vcTEXT
	vcBLOB
)

type vKey struct {
	class int
	i     int64
	f     float64
	b     []byte
	k     *Key
}

// vSymKey builds a key of arbitrary class with symbolic payload (text/blob up to maxLen bytes).
func vSymKey(name string, maxLen int, classes int) vKey {
	var r vKey
	r.class = symChoice(name+"_class", classes)
	switch r.class {
	case vcINT:
		r.i = symInt64(name + "_i")
		r.k = NewKey(r.i)
	case vcREAL:
		r.f = symFloat64(name + "_f")
		symAssume(r.f == r.f) // SQLite stores NaN as NULL: a REAL key is never NaN
		r.k = NewKey(r.f)
	case vcTEXT:
		n := symChoice(name+"_len", maxLen+1)
		r.b = symBytes(name+"_b", n)
		r.k = NewKey(string(r.b))
	case vcBLOB:
		n := symChoice(name+"_len", maxLen+1)
		r.b = symBytes(name+"_b", n)
		r.k = NewKey(r.b)
	}
	return r
}

// vIntFloatCompare is a transcription of sqlite3IntFloatCompare (vdbeaux.c),
// the branch used when long double is not wider than double.
func vIntFloatCompare(i int64, r float64) int {
	if r < -9223372036854775808.0 {
		return 1
	}
	if r >= 9223372036854775808.0 {
		return -1
	}
	y := int64(r)
	if i < y {
		return -1
	}
	if i > y {
		return 1
	}
	s := float64(i)
	if s < r {
		return -1
	}
	if s > r {
		return 1
	}
	return 0
}

func vBytesCompare(a, b []byte) int {
	n := len(a)
	if len(b) < n {
		n = len(b)
	}
	for i := 0; i < n; i++ {
		if a[i] < b[i] {
			return -1
		}
		if a[i] > b[i] {
			return 1
		}
	}
	if len(a) < len(b) {
		return -1
	}
	if len(a) > len(b) {
		return 1
	}
	return 0
}

// vRefCompare is SQLite's comparison of two non-NULL values (sqlite3MemCompare):
// numeric < text < blob; numbers exactly; text and blob by memcmp.
func vRefCompare(a, b vKey) int {
	ra, rb := a.class, b.class
	if ra == vcREAL {
		ra = vcINT
	}
	if rb == vcREAL {
		rb = vcINT
	}
	if ra != rb {
		if ra < rb {
			return -1
		}
		return 1
	}
	switch {
	case a.class == vcINT && b.class == vcINT:
		if a.i < b.i {
			return -1
		}
		if a.i > b.i {
			return 1
		}
		return 0
	case a.class == vcREAL && b.class == vcREAL:
		if a.f < b.f {
			return -1
		}
		if a.f > b.f {
			return 1
		}
		return 0
	case a.class == vcINT && b.class == vcREAL:
		return vIntFloatCompare(a.i, b.f)
	case a.class == vcREAL && b.class == vcINT:
		return -vIntFloatCompare(b.i, a.f)
	}
	return vBytesCompare(a.b, b.b)
}

func vSign(x int) int {
	if x < 0 {
		return -1
	}
	if x > 0 {
		return 1
	}
	return 0
}

// H07a (pairs): differential against the SQLite comparator, antisymmetry,
// "equal only for equal values".
func VerifH_C07_pair() {
	maxLen := symParam("maxlen", 2)
	a := vSymKey("a", maxLen, 4)
	b := vSymKey("b", maxLen, 4)
	oab := a.k.Order(b.k)
	oba := b.k.Order(a.k)
	symObserve("oab", oab)
	symObserve("oba", oba)
	symAssert(oab == -oba, "antisymmetric")
	ref := vRefCompare(a, b)
	symObserve("ref", ref)
	symAssert(vSign(oab) == ref, "matches-sqlite")
	if oab == 0 {
		symAssert(ref == 0, "equal-only-for-equal-values")
	}
	symReach("end")
}

// H07a (triples): transitivity.
func VerifH_C07_triple() {
	maxLen := symParam("maxlen", 1)
	classes := symParam("classes", 4)
	a := vSymKey("a", maxLen, classes)
	b := vSymKey("b", maxLen, classes)
	c := vSymKey("c", maxLen, classes)
	if a.k.Order(b.k) <= 0 {
		if b.k.Order(c.k) <= 0 {
			symAssert(a.k.Order(c.k) <= 0, "transitive")
			symReach("chain")
		}
	}
	symReach("end")
}

// H07b: keys that compare equal must get the same layer (the layer decides
// where the tree looks for the key).  The real Key.Layer runs with the hash
// function it delegates to (the package variable defaultLayer) replaced by a
// recorder, so "layer is a function of the Order-equivalence class" becomes
// "equal keys hand identical arguments to the hash".
func VerifH_C07_layer() {
	a := vSymKey("a", 2, 4)
	b := vSymKey("b", 2, 4)
	bf := uint(symParam("bf", 2))
	var rec []interface{}
	defaultLayer = func(i interface{}, branchFactor uint) (uint8, error) {
		rec = append(rec, i)
		return 0, nil
	}
	if a.k.Order(b.k) == 0 {
		a.k.Layer(bf)
		b.k.Layer(bf)
		symAssert(len(rec) == 2, "layer-delegates-once")
		symAssert(symDeepEq(rec[0], rec[1]), "equal-keys-same-layer")
		symReach("equal")
	}
	symReach("end")
}

// NULL key class is recognised.
func VerifH_C07_null() {
	k := NewKey(nil)
	symAssert(k.IsNull(), "null-key-is-null")
	symAssert(k.Type == v1proto.Type_NULL, "null-type")
	symReach("end")
}

// H07c: on a real tree (entries_per_node 2, keys 1..4 with their real integer
// layers 0,1,0,2), a second INSERT of a key that compares equal to an existing
// one is a constraint failure — never a second row, a panic or a corrupted
// table — and a NULL key is rejected, also when the table already holds rows.
// The layer of the REAL key (a crc64 of its formatted value in the real code)
// is left symbolic in 0..2.
func VerifH_C07_insert_equal() {
	class := symChoice("class", 4) // of the second insert: INT equal, REAL numerically equal, TEXT (distinct), NULL
	intLayer := defaultLayer
	defaultLayer = func(i interface{}, bf uint) (uint8, error) {
		switch i.(type) {
		case int64:
			return intLayer(i, bf)
		case string:
			if class == 1 {
				l := symUint8("real_key_layer")
				symAssume(l <= 2)
				return l, nil
			}
		}
		return 0, nil
	}
	bkt := vNewBucket()
	w := vMustOpen(bkt.client(1), vTableOpts{bf: 2}, 10)
	n := symParam("keys", 4)
	for k := 1; k <= n; k++ {
		symAssert(vIns(w, int64(100+k), int64(k), int64(k), nil) == nil, "insert-ok")
	}
	if symChoice("committed", 2) == 1 {
		symAssert(w.Commit(vCtx) == nil, "commit-ok")
	}
	before, err := vScan(w)
	symAssert(err == nil, "scan-ok")
	target := int64(1 + symChoice("which", n))
	var err2 error
	switch class {
	case 0:
		err2 = vIns(w, 500, target, int64(9), nil)
		symAssert(err2 == ErrS3DBConstraintPrimaryKey, "equal-key-is-a-constraint-failure")
	case 1:
		err2 = vIns(w, 500, float64(target), int64(9), nil)
		symAssert(err2 == ErrS3DBConstraintPrimaryKey, "equal-key-is-a-constraint-failure")
	case 2:
		err2 = vIns(w, 500, "x", int64(9), nil)
		symAssert(err2 == nil, "distinct-key-accepted")
	case 3:
		err2 = vIns(w, 500, nil, int64(9), nil)
		symAssert(err2 == ErrS3DBConstraintNotNull, "null-key-rejected")
	}
	after, err := vScan(w)
	symAssert(err == nil, "scan-after-ok")
	if class != 2 {
		symAssert(vRowsEq(before, after), "table-unchanged-by-refused-insert")
	} else {
		symAssert(len(after) == len(before)+1, "distinct-key-adds-one-row")
	}
	symReach("end")
}
