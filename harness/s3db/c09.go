package s3db

// C09 — vacuum never changes what the table contains;
// C10 — vacuum reclaims exactly what the cutoff allows.

import (
	"time"

	"github.com/jrhy/s3db/kv/crdt"
)

// vRetainedVersionsReadable: every version object still present under root/
// (current or merged) must be fully readable: all nodes it refers to exist.
func vRetainedVersionsReadable(bkt *vBucket) bool { return vVersionsReadable(bkt, nil) }

// vVersionsReadable: with only != nil, just the versions whose object name is
// in that set are checked.
func vVersionsReadable(bkt *vBucket, only map[string]bool) bool {
	ok := true
	for _, pfx := range []string{vPrefix + "/root/current/", vPrefix + "/root/merged/"} {
		for _, name := range bkt.names(pfx) {
			if only != nil && !only[name] {
				continue
			}
			ver := name[len(pfx):]
			r, err := vOpen(bkt.fork().client(6), vTableOpts{bf: 2, readOnly: true, versions: []string{ver}}, 990)
			if err != nil {
				vDbg("open version "+ver, err)
				ok = false
				continue
			}
			if _, err := vScan(r); err != nil {
				vDbg("scan version "+ver, err)
				ok = false
			}
		}
	}
	return ok
}

// H09: a history of single-statement transactions (each committed as its own
// version, some through a new handle), then Vacuum with a symbolic cutoff.
func VerifH_C09_vacuum() {
	steps := symParam("steps", 3)
	rounds := symParam("rounds", 1)
	cache := symParam("cache", 0)
	bkt := vNewBucket()
	w := vMustOpen(bkt.client(1), vTableOpts{bf: 2, cache: cache}, 1000)
	for round := 0; round < rounds; round++ {
		base := int64(2000 + 10000*round)
		for i := 0; i < steps; i++ {
			t := base + int64(100*i)
			var err error
			switch symChoice("stmt", 6) {
			case 0:
				err = vIns(w, t, int64(1), int64(10+i), nil)
			case 1:
				err = vIns(w, t, int64(2), int64(20+i), nil)
			case 2:
				err = w.Delete(vAt(t), int64(1))
			case 3:
				err = w.Delete(vAt(t), int64(2))
			case 4:
				err = w.Update(vAt(t), int64(1), map[int]interface{}{1: int64(110 + i)})
			case 5: // continue through a new handle (new creation time)
				w = vMustOpen(bkt.client(1), vTableOpts{bf: 2, cache: cache}, t+50)
			}
			if err != nil && err != ErrS3DBConstraintPrimaryKey {
				symAssert(false, "statement-ok")
			}
			symAssert(w.Commit(vCtx) == nil, "commit-ok")
		}
		tables["t"] = w
		before, err := vScan(w)
		symAssert(err == nil, "scan-before-ok")
		cutName := "cutoff"
		if round > 0 {
			cutName = "cutoff" + string(rune('0'+round))
		}
		cut := symInt64(cutName)
		symAssume(vTimeOK(cut))
		err = Vacuum(vCtx, "t", time.Unix(0, cut))
		symAssert(err == nil, "vacuum-ok")
		// visible rows unchanged through the vacuuming handle
		after, err := vScan(w)
		symAssert(err == nil, "scan-after-ok")
		symAssert(vRowsEq(before, after), "rows-unchanged-through-vacuuming-handle")
		// ... and through a connection opened afterwards
		fresh, err := vFreshRows(bkt)
		symAssert(err == nil, "fresh-open-after-vacuum-ok")
		symAssert(vRowsEq(before, fresh), "rows-unchanged-for-new-connection")
		// no retained version refers to a deleted object
		symAssert(vRetainedVersionsReadable(bkt), "retained-versions-fully-readable")
		// repeating the same vacuum changes nothing
		names1 := bkt.names("")
		err = Vacuum(vCtx, "t", time.Unix(0, cut))
		symAssert(err == nil, "second-vacuum-ok")
		names2 := bkt.names("")
		symAssert(symDeepEq(names1, names2), "second-vacuum-changes-nothing")
		if round+1 < rounds {
			// the vacuuming handle carries on with more statements and
			// another vacuum (what it cached about the bucket may be stale now)
			w = tables["t"]
			continue
		}
		// still writable: a fresh key, and every key that is not visible (never
		// inserted, or deleted and possibly vacuumed away) can be inserted again
		symAssert(vIns(w, 90000, int64(7), int64(70), nil) == nil, "writable-after-vacuum")
		added := 1
		for _, k := range []int64{1, 2} {
			if vis, _ := vHas(w, k); !vis {
				symAssert(vIns(w, 90001, k, int64(5), nil) == nil, "vacuumed-key-can-be-inserted-again")
				added++
			}
		}
		symAssert(w.Commit(vCtx) == nil, "commit-after-vacuum-ok")
		final, err := vFreshRows(bkt)
		symAssert(err == nil, "fresh-open-after-write-ok")
		symAssert(len(final) == len(before)+added, "write-after-vacuum-visible")
	}
	symReach("end")
}

// H10a: row side of the cutoff.  One entry in arbitrary state (deleted or
// live, modification time and delete offset symbolic) next to a live row;
// after Vacuum(cutoff) the entry is gone exactly when it was deleted strictly
// before the cutoff; everything else is untouched.
func VerifH_C10_rowside() {
	cut, mod, off := symInt64("cutoff"), symInt64("mod"), symInt64("off")
	symAssume(vTimeOK(cut))
	symAssume(vTimeOK(mod))
	symAssume(vTimeOK(mod + off))
	symAssume(off > -(1 << 62))
	symAssume(off < 1<<62)
	deleted := symBool("deleted")
	bkt := vNewBucket()
	w := vMustOpen(bkt.client(1), vTableOpts{bf: 2}, 10)
	row := &v1protoRow{Deleted: deleted, DeleteUpdateOffset: durNew(off), ColumnValues: map[string]*v1protoColumnValue{}}
	if !deleted {
		row.ColumnValues["b"] = &v1protoColumnValue{Value: toSQLiteValue(int64(5))}
	}
	symAssert(w.Tree.Root.Set(vCtx, time.Unix(0, mod), NewKey(int64(1)), row) == nil, "set-ok")
	symAssert(vIns(w, 7, int64(2), int64(22), nil) == nil, "insert-ok")
	symAssert(w.Commit(vCtx) == nil, "commit-ok")
	tables["t"] = w
	var live0 crdt.Value
	_, _ = w.Tree.Root.Get(vCtx, NewKey(int64(2)), &live0)
	err := Vacuum(vCtx, "t", time.Unix(0, cut))
	symAssert(err == nil, "vacuum-ok")
	var cv crdt.Value
	present, err := w.Tree.Root.Get(vCtx, NewKey(int64(1)), &cv)
	symAssert(err == nil, "get-ok")
	gone := !present
	symObserve("gone", gone)
	symAssert(gone == symAnd(deleted, mod+off < cut), "removed-iff-deleted-strictly-before-cutoff")
	if present {
		symAssert(cv.ModEpochNanos == mod, "kept-entry-untouched")
		r := cv.Value.(*v1protoRow)
		symAssert(r.Deleted == deleted, "kept-delete-marker")
		symAssert(r.DeleteUpdateOffset.AsDuration() == time.Duration(off), "kept-delete-time")
	}
	var live1 crdt.Value
	ok, err := w.Tree.Root.Get(vCtx, NewKey(int64(2)), &live1)
	symAssert(err == nil, "get-live-ok")
	symAssert(ok, "live-row-kept")
	symAssert(symDeepEq(live0, live1), "live-row-untouched")
	// a fresh connection agrees
	r, err := vOpen(bkt.fork().client(2), vTableOpts{bf: 2, readOnly: true}, 99)
	symAssert(err == nil, "fresh-open-ok")
	var cv2 crdt.Value
	present2, err := r.Tree.Root.Get(vCtx, NewKey(int64(1)), &cv2)
	symAssert(err == nil, "fresh-get-ok")
	symAssert(present2 == present, "fresh-connection-agrees")
	// removed means reclaimed: nothing of the entry is left in the tree, not
	// even a tombstone (which would occupy the table for good and outvote
	// later inserts of the key)
	rc, err := w.Tree.Root.Cursor(vCtx)
	symAssert(err == nil, "raw-cursor-ok")
	symAssert(rc.Min(vCtx) == nil, "raw-cursor-ok")
	raw := 0
	for {
		_, v, ok := rc.Get()
		if !ok {
			break
		}
		symAssert(!v.Tombstoned(), "vacuum-leaves-no-tombstone-behind")
		raw++
		symAssert(rc.Forward(vCtx) == nil, "raw-cursor-ok")
	}
	if gone {
		symAssert(raw == 1, "removed-entry-is-reclaimed")
		// and the key is as good as never used: an insert with any write time is visible
		tre := symInt64("reinsert")
		symAssume(vTimeOK(tre))
		symAssert(vIns(w, tre, int64(1), int64(8), nil) == nil, "reinsert-ok")
		vis, err := vHas(w, int64(1))
		symAssert(err == nil && vis, "reclaimed-key-can-be-inserted-again")
		w.Tree.Root.Cancel() // not kept
	} else {
		symAssert(raw == 2, "kept-entry-is-still-stored")
	}
	symReach("end")
}

// H10c: a delete marker kept by vacuum (delete time >= cutoff) still wins over
// a write that is older than the delete and merged later.
func VerifH_C10_marker_wins() {
	cut, tdel, told := symInt64("cutoff"), symInt64("tdel"), symInt64("told")
	symAssume(vTimeOK(cut))
	symAssume(vTimeOK(tdel))
	symAssume(vTimeOK(told))
	symAssume(tdel >= cut)
	symAssume(told < tdel)
	tins := symInt64("tins")
	symAssume(vTimeOK(tins))
	symAssume(tins < tdel)
	symAssume(tins != told)
	bkt := vNewBucket()
	w := vMustOpen(bkt.client(1), vTableOpts{bf: 2}, 10)
	symAssert(vIns(w, tins, int64(1), int64(5), nil) == nil, "insert-ok")
	symAssert(w.Delete(vAt(tdel), int64(1)) == nil, "delete-ok")
	symAssert(w.Commit(vCtx) == nil, "commit-ok")
	tables["t"] = w
	symAssert(Vacuum(vCtx, "t", time.Unix(0, cut)) == nil, "vacuum-ok")
	// another writer, who never saw the delete, wrote the row earlier than the delete
	ob := vNewBucket()
	o := vMustOpen(ob.client(2), vTableOpts{bf: 2}, 11)
	symAssert(vIns(o, told, int64(1), int64(6), nil) == nil, "other-insert-ok")
	symAssert(o.Commit(vCtx) == nil, "other-commit-ok")
	for k, v := range ob.objs {
		bkt.objs[k] = v
	}
	m, err := vOpen(bkt.client(3), vTableOpts{bf: 2}, 12)
	symAssert(err == nil, "merge-open-ok")
	visible, err := vHas(m, int64(1))
	symAssert(err == nil, "get-ok")
	symAssert(!visible, "retained-delete-beats-older-write")
	symReach("end")
}

// H10d: vacuum reports success only when it reclaimed what the cutoff allows:
// with one storage fault at a symbolic request, either it fails (and a retry
// finishes the job) or the bucket holds exactly what a fault-free vacuum leaves.
func VerifH_C10_reclaim() {
	shape := symChoice("shape", 3)
	cut := int64(5000)
	ref := vNewBucket()
	rw := vC04VacuumSetup(ref, shape)
	tables["t"] = rw
	r0 := ref.reqs
	symAssert(Vacuum(vCtx, "t", time.Unix(0, cut)) == nil, "reference-vacuum-ok")
	nreq := ref.reqs - r0
	want := ref.names("")

	bkt := vNewBucket()
	w := vC04VacuumSetup(bkt, shape)
	tables["t"] = w
	f := symInt("fault")
	symAssume(f >= 0)
	symAssume(f < nreq)
	bkt.faultOn, bkt.faultAt = true, bkt.reqs+f
	verr := Vacuum(vCtx, "t", time.Unix(0, cut))
	bkt.faultOn = false
	symObserve("vacuum_failed", verr != nil)
	if verr != nil {
		symEvent("vacuum-reported-failure")
		// the fault is gone: the same vacuum now completes
		symAssert(Vacuum(vCtx, "t", time.Unix(0, cut)) == nil, "retry-after-fault-ok")
		symReach("retried")
	}
	got := bkt.names("")
	if !symIsSymbolic() && !symDeepEq(got, want) {
		for _, l := range bkt.log {
			println("VERIF-DBG log", l)
		}
		for _, n := range got {
			println("VERIF-DBG got", n)
		}
		for _, n := range want {
			println("VERIF-DBG want", n)
		}
	}
	symAssert(symDeepEq(got, want), "successful-vacuum-reclaimed-exactly-what-the-cutoff-allows")
	symReach("end")
}
