package s3db

// C01 / C02 / C15 — the row algebra, checked against the documented rules
// (README "conflicting rows": per-column last-write-wins, a DELETE supersedes
// all UPDATEs until another INSERT) on histories of symbolic statements
// spread over several writers.

const (
	vINS = iota
	vUPD
	vDEL
)

type vStmt struct {
	kind   int
	t      int64
	setB   bool
	setC   bool
	b, c   int64
	writer int
	cNull  bool // the value assigned to c is NULL
	eff    bool // accepted and applied (see vExec)
}

// vSymStmt: a statement with symbolic write time and values; kind and
// assigned columns are explored as choices.
func vSymStmt(i int, kinds int) vStmt {
	is := string(rune('0' + i))
	s := vStmt{t: symInt64("t" + is), b: symInt64("b" + is), c: symInt64("c" + is)}
	if shape := symParam("shape", 0); shape == 1 {
		s.kind = []int{vINS, vUPD, vUPD, vDEL}[i%4] // two updates, then a delete with an arbitrary write time
	} else if shape == 3 {
		s.kind = []int{vINS, vINS, vUPD, vDEL}[i%4] // two writers insert; an update and a delete with arbitrary write times
	} else if shape == 2 {
		s.kind = []int{vINS, vUPD, vDEL, vINS}[i%4] // update, delete, re-insert with arbitrary write times
	} else if i == 0 && symParam("firstins", 0) == 1 {
		s.kind = vINS // histories that start by inserting the row (the others mostly consist of no-ops)
	} else {
		s.kind = symChoice("kind"+is, kinds)
	}
	s.cNull = symParam("nulls", 1) == 1 && s.kind == vINS && symChoice("cnull"+is, 2) == 1
	symAssume(vTimeOK(s.t))
	switch s.kind {
	case vINS:
		s.setB, s.setC = true, true // SQLite passes every column to xUpdate on INSERT
	case vUPD:
		switch symChoice("mask"+is, 3) {
		case 0:
			s.setB = true
		case 1:
			s.setC = true
		case 2:
			s.setB, s.setC = true, true
		}
	}
	return s
}

// vExec runs the statement the way SQLite would drive the table: INSERT is
// attempted only... always (a visible row gives a constraint failure); UPDATE
// and DELETE reach the table only when the row is visible to that connection.
// Returns whether the statement was accepted and applied.
func vExec(vt *VirtualTable, s vStmt) bool {
	visible, err := vHas(vt, int64(1))
	symAssert(err == nil, "get-ok")
	switch s.kind {
	case vINS:
		_, err := vt.Insert(vAt(s.t), map[int]interface{}{0: int64(1), 1: s.b, 2: s.cVal()})
		if visible {
			symAssert(err == ErrS3DBConstraintPrimaryKey, "insert-of-visible-row-refused")
			return false
		}
		if err == ErrS3DBConstraintPrimaryKey {
			// refused although no row is visible (a delete marker that is not older): not accepted
			symEvent("insert-refused-on-invisible-row")
			return false
		}
		symAssert(err == nil, "insert-ok")
		return true
	case vUPD:
		if !visible {
			return false
		}
		m := map[int]interface{}{}
		if s.setB {
			m[1] = s.b
		}
		if s.setC {
			m[2] = s.cVal()
		}
		symAssert(vt.Update(vAt(s.t), int64(1), m) == nil, "update-ok")
		return true
	case vDEL:
		if !visible {
			return false
		}
		symAssert(vt.Delete(vAt(s.t), int64(1)) == nil, "delete-ok")
		return true
	}
	return false
}

func (s vStmt) cVal() interface{} {
	if s.cNull {
		return nil
	}
	return s.c
}

type vVisible struct {
	live bool
	b, c interface{}
}

// vOracle: the documented outcome for the effective statements.
func vOracle(st []vStmt) vVisible {
	// the latest INSERT or DELETE decides the status
	dec := -1
	for i, s := range st {
		if !s.eff || s.kind == vUPD {
			continue
		}
		if dec < 0 || s.t > st[dec].t {
			dec = i
		}
	}
	if dec < 0 || st[dec].kind == vDEL {
		return vVisible{}
	}
	res := vVisible{live: true}
	tb, tc := int64(-1), int64(-1)
	for _, s := range st {
		if !s.eff || s.kind == vDEL || s.t < st[dec].t {
			continue
		}
		if s.setB && s.t > tb {
			tb, res.b = s.t, s.b
		}
		if s.setC && s.t > tc {
			tc, res.c = s.t, s.cVal()
		}
	}
	return res
}

func vSee(vt *VirtualTable) vVisible {
	rows, err := vScan(vt)
	symAssert(err == nil, "scan-ok")
	var res vVisible
	seen := 0
	for _, r := range rows {
		if r.k == int64(1) {
			seen++
			res = vVisible{live: true, b: r.b, c: r.c}
		}
	}
	symAssert(seen <= 1, "one-key-one-row")
	return res
}

// vBystander: is the row with key 2 (written once, by one writer) intact?
func vBystander(vt *VirtualTable) bool {
	rows, err := vScan(vt)
	symAssert(err == nil, "scan-ok")
	for _, r := range rows {
		if r.k == int64(2) {
			return r.b == int64(77) && r.c == int64(78)
		}
	}
	return false
}

func vSameVisible(a, b vVisible) bool {
	if a.live != b.live {
		return false
	}
	if !a.live {
		return true
	}
	return symAnd(symDeepEq(a.b, b.b), symDeepEq(a.c, b.c))
}

// H02: n symbolic statements on one key, spread over `writers` connections
// that started from the same (empty) table, with one optional point at which
// everybody commits and refreshes; at the end everybody commits and a fresh
// reader merges all versions (every merge order is explored: the shuffle is
// symbolic).  The merged row must be the documented one.
func VerifH_C02_history() {
	n := symParam("stmts", 2)
	nw := symParam("writers", 2)
	bkt := vNewBucket()
	w := make([]*VirtualTable, nw)
	for i := range w {
		w[i] = vMustOpen(bkt.client(1+i), vTableOpts{bf: 2}, int64(10+i))
	}
	st := make([]vStmt, n)
	ties := symParam("ties", 0) == 1 // C15: arbitrary write times, including equal ones on different statements
	for i := range st {
		st[i] = vSymStmt(i, 3)
		for j := 0; j < i; j++ {
			if !ties {
				symAssume(st[i].t != st[j].t) // distinct write times per key
			}
		}
		if i > 0 {
			st[i].writer = symChoice("writer", nw)
		}
	}
	// C15: a byte-identical retry of an earlier statement (same write_time, same
	// values), re-executed at any later point on any writer
	retryOf, retryAfter := -1, -1
	if symParam("retry", 0) == 1 {
		retryOf = symChoice("retryof", n)
		retryAfter = retryOf + symChoice("retryafter", n-retryOf)
		r := st[retryOf]
		r.writer = symChoice("retrywriter", nw)
		r.eff = false
		st = append(st, r)
	}
	// a bystander row that only the last writer ever touches must survive every
	// merge, in whatever order and grouping (the tree-level side of the merge)
	if symParam("extra", 1) == 1 {
		symAssert(vIns(w[nw-1], 7, int64(2), int64(77), int64(78)) == nil, "bystander-insert-ok")
	}
	syncAt := symChoice("sync", n) // 0 = no intermediate refresh, k = after statement k
	syncMode := 0
	if syncAt > 0 && symParam("merger", 0) == 1 {
		syncMode = symChoice("syncmode", 2) // 0 = everybody refreshes, 1 = a third party merges and commits, nobody refreshes
	}
	for i := 0; i < n; i++ {
		st[i].eff = vExec(w[st[i].writer], st[i])
		if retryAfter == i {
			before := vSee(w[st[n].writer])
			st[n].eff = vExec(w[st[n].writer], st[n])
			if st[n].writer == st[retryOf].writer && st[retryOf].eff && syncAt == 0 {
				// the writer has executed the statement before: executing it again
				// (same write_time, same values) leaves its table unchanged
				symAssert(vSameVisible(before, vSee(w[st[n].writer])), "retry-on-the-same-writer-changes-nothing")
			}
		}
		if syncAt == i+1 && i+1 < n {
			for k := range w {
				symAssert(w[k].Commit(vCtx) == nil, "commit-ok")
			}
			if syncMode == 1 {
				_, err := vOpen(bkt.client(7), vTableOpts{bf: 2}, 90)
				symAssert(err == nil, "third-party-merge-ok")
				continue
			}
			for k := range w {
				nt, err := vOpen(bkt.client(1+k), vTableOpts{bf: 2}, int64(100+k))
				symAssert(err == nil, "refresh-ok")
				w[k] = nt
			}
			// every writer then also writes a row of its own, so each of them ends
			// with a version of its own that still carries what it saw of key 1
			if symParam("own", 0) == 1 {
				for k := range w {
					symAssert(vIns(w[k], int64(8+k), int64(10+k), int64(k), int64(k)) == nil, "own-row-insert-ok")
				}
			}
		}
	}
	for k := range w {
		symAssert(w[k].Commit(vCtx) == nil, "final-commit-ok")
	}
	r, err := vOpen(bkt.fork().client(9), vTableOpts{bf: 2, readOnly: true}, 900)
	symAssert(err == nil, "merged-open-ok")
	got := vSee(r)
	if symParam("extra", 1) == 1 {
		symAssert(vBystander(r), "row-written-by-one-writer-survives-every-merge")
	}
	want := vOracle(st)
	symObserve("live", got.live)
	if ties {
		// with equal write times on different statements the documented rules
		// leave the outcome open; only the retry assertion applies
		symReach("end")
		return
	}
	symAssert(got.live == want.live, "row-status-decided-by-latest-insert-or-delete")
	if got.live && want.live {
		symAssert(symDeepEq(got.b, want.b), "column-b-holds-latest-assignment")
		symAssert(symDeepEq(got.c, want.c), "column-c-holds-latest-assignment")
	}
	// C01: merging adds nothing when nothing new was committed
	if symParam("quiesce", 0) == 1 {
		// variant: one writer's version lost its nodes (vacuumed by somebody
		// else, or not visible yet): the opener skips it, and must still settle
		damaged := false
		if syncAt == 0 && symChoice("damage", 2) == 1 {
			for _, name := range bkt.names(vPrefix + "/node/") {
				if bkt.putBy[name] == 2 {
					delete(bkt.objs, name)
					damaged = true
				}
			}
		}
		// (the order in which these two opens merge is not explored again: the
		// reader above already went through every order)
		symShuffleMode(1)
		m1, err := vOpen(bkt.client(5), vTableOpts{bf: 2}, 910)
		symAssert(err == nil, "merging-open-ok")
		if damaged {
			got = vSee(m1)
		}
		symAssert(vSameVisible(vSee(m1), got), "merging-writer-sees-the-same-row")
		if !damaged {
			symAssert(len(bkt.names(vPrefix+"/root/current/")) <= 1, "one-current-version-after-merge")
		}
		muts := bkt.muts
		m2, err := vOpen(bkt.client(6), vTableOpts{bf: 2}, 920)
		symAssert(err == nil, "quiescent-reopen-ok")
		symAssert(bkt.muts == muts, "quiescent-reopen-writes-nothing")
		symAssert(vSameVisible(vSee(m2), got), "quiescent-reopen-sees-the-same-row")
	}
	symReach("end")
}
