package s3db

// C06 — a single-writer table behaves like plain SQLite (the virtual-table
// half: BestIndex -> Filter -> Next against "filter and sort" over the rows).

type vCons struct {
	op      Op
	isNull  bool
	operand int64
}

// vSat: does key k satisfy "k <op> operand" the way SQLite evaluates it
// (a comparison with NULL is never true).
func vSat(k int64, c vCons) bool {
	if c.isNull {
		return false
	}
	switch c.op {
	case OpEQ:
		return k == c.operand
	case OpLT:
		return k < c.operand
	case OpLE:
		return k <= c.operand
	case OpGE:
		return k >= c.operand
	case OpGT:
		return k > c.operand
	}
	return true
}

func VerifH_C06_scan() {
	m := symParam("keys", 3)
	ncMax := symParam("constraints", 2)
	vUFLayer(uint8(symParam("maxlayer", 2)))
	bkt := vNewBucket()
	w := vMustOpen(bkt.client(1), vTableOpts{bf: 2}, 10)
	keys := vDistinctKeys(m)
	for i := 0; i < m; i++ {
		symAssert(vIns(w, int64(100+i), keys[i], int64(i), nil) == nil, "insert-ok")
	}
	// optionally one deleted row
	del := symChoice("deleted", symParam("dels", m+1)) - 1
	if del >= 0 {
		symAssert(w.Delete(vAt(500), keys[del]) == nil, "delete-ok")
	}
	// optionally commit and continue on a fresh handle (through the codec)
	reopen := symParam("reopen", 2) // 0 never, 1 always, 2 both
	if reopen == 2 {
		reopen = symChoice("reopen", 2)
	}
	if reopen == 1 {
		symAssert(w.Commit(vCtx) == nil, "commit-ok")
		w = vMustOpen(bkt.client(2), vTableOpts{bf: 2, readOnly: true}, 20)
	}
	// the query: constraints on the key column and an ORDER BY
	nc := symChoice("nconstraints", ncMax+1)
	cons := make([]vCons, nc)
	input := make([]IndexInput, nc)
	for i := range cons {
		is := string(rune('0' + i))
		cons[i].op = Op(1 + symChoice("op", 5))
		// a NULL operand is handled before the operator matters: explore it for "=" only
		if symParam("nulls", 1) == 1 && cons[i].op == OpEQ && symChoice("null", 2) == 1 {
			cons[i].isNull = true
		} else {
			cons[i].operand = symInt64("operand" + is)
		}
		input[i] = IndexInput{Op: cons[i].op, ColumnIndex: 0}
	}
	var order []OrderInput
	ordKind := symChoice("orderby", symParam("orders", 4)) // none, key asc, key desc, non-key column
	switch ordKind {
	case 1:
		order = []OrderInput{{Column: 0, Desc: false}}
	case 2:
		order = []OrderInput{{Column: 0, Desc: true}}
	case 3:
		order = []OrderInput{{Column: 1, Desc: false}}
	}
	out, err := w.BestIndex(input, order)
	symAssert(err == nil, "bestindex-ok")
	var vals []interface{}
	for i := range cons {
		if !out.Used[i] {
			continue // a table may leave a constraint to SQLite's re-check
		}
		if cons[i].isNull {
			vals = append(vals, nil)
		} else {
			vals = append(vals, cons[i].operand)
		}
	}
	cur, err := w.Open()
	symAssert(err == nil, "open-cursor-ok")
	err = cur.Filter(vCtx, out.IdxStr, vals)
	symAssert(err == nil, "filter-ok")
	// got: what the cursor yields, after the re-check SQLite performs on every row
	var got []int64
	for !cur.Eof() {
		kv, err := cur.Column(0)
		symAssert(err == nil, "column-ok")
		k := kv.(int64)
		keep := true
		for _, c := range cons {
			if !vSat(k, c) {
				keep = false
			}
		}
		if keep {
			got = append(got, k)
		}
		symAssert(len(got) <= m, "cursor-terminates")
		symAssert(cur.Next(vCtx) == nil, "next-ok")
	}
	// expected: the live rows that satisfy every constraint
	var want []int64
	for i := 0; i < m; i++ {
		if i == del {
			continue
		}
		keep := true
		for _, c := range cons {
			if !vSat(keys[i], c) {
				keep = false
			}
		}
		if keep {
			want = append(want, keys[i])
		}
	}
	if !symIsSymbolic() {
		println("VERIF-DBG got", len(got), "want", len(want))
		for _, g := range got {
			println("VERIF-DBG  got", g)
		}
	}
	symAssert(len(got) == len(want), "complete-and-nothing-extra")
	// every expected row is there (as a set)
	for _, k := range want {
		found := false
		for _, g := range got {
			if g == k {
				found = true
			}
		}
		symAssert(found, "expected-row-returned")
	}
	// order: when the table says the output is already ordered SQLite does not sort
	if out.AlreadyOrdered && ordKind != 0 {
		symAssert(ordKind != 3, "non-key-order-not-claimed")
		for i := 1; i < len(got); i++ {
			if ordKind == 1 {
				symAssert(got[i-1] < got[i], "ascending-order")
			} else {
				symAssert(got[i-1] > got[i], "descending-order")
			}
		}
	}
	symReach("end")
}
