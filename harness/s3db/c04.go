package s3db

// C04 — a crash at any point of a commit leaves old or new contents.

import "time"

// vC04Prefix builds the committed prefix: shape 0 = empty bucket, 1 = one
// version with keys 1..3, 2 = one version with keys 1..5 (depth 2 with
// entries_per_node 2), 3 = two unmerged versions (writers A: 1,2  B: 3,4).
func vC04Prefix(bkt *vBucket, shape int) {
	switch shape {
	case 1, 2:
		w := vMustOpen(bkt.client(9), vTableOpts{bf: 2}, 10)
		n := 3
		if shape == 2 {
			n = 5
		}
		for k := 1; k <= n; k++ {
			if err := vIns(w, int64(100+k), int64(k), int64(k*10), nil); err != nil {
				panic(err)
			}
		}
		if err := w.Commit(vCtx); err != nil {
			panic(err)
		}
	case 3:
		a := vMustOpen(bkt.client(8), vTableOpts{bf: 2}, 10)
		b := vMustOpen(bkt.client(9), vTableOpts{bf: 2}, 11)
		for k := 1; k <= 2; k++ {
			if err := vIns(a, int64(100+k), int64(k), int64(k*10), nil); err != nil {
				panic(err)
			}
			if err := vIns(b, int64(200+k), int64(k+2), int64(k*10+20), nil); err != nil {
				panic(err)
			}
		}
		if err := a.Commit(vCtx); err != nil {
			panic(err)
		}
		if err := b.Commit(vCtx); err != nil {
			panic(err)
		}
	}
}

// vC04Txn: open writable (merge-on-open commit included), run the statements,
// commit.  Returns whether the commit was acknowledged.
func vC04Txn(bkt *vBucket, kinds []int) (acked bool) {
	w, err := vOpen(bkt.client(1), vTableOpts{bf: 2}, 50)
	if err != nil {
		return false
	}
	for i, kind := range kinds {
		t := int64(1000 + i)
		switch kind {
		case 0:
			_, err = w.Insert(vAt(t), map[int]interface{}{0: int64(6), 1: int64(60)})
		case 1:
			err = w.Update(vAt(t), int64(2), map[int]interface{}{1: int64(21)})
		case 2:
			err = w.Delete(vAt(t), int64(3))
		case 3:
			_, err = w.Insert(vAt(t), map[int]interface{}{0: int64(8), 1: int64(80)})
		}
		if err != nil && err != ErrS3DBConstraintPrimaryKey {
			return false
		}
	}
	if err := w.Commit(vCtx); err != nil {
		return false
	}
	return true
}

// vFreshRows: what a fresh read-only connection sees (an oracle: the order in
// which it merges several current versions is not explored here, C01 does that).
func vFreshRows(bkt *vBucket) ([]vRow, error) {
	symShuffleMode(1)
	defer symShuffleMode(0)
	r, err := vOpen(bkt.fork().client(7), vTableOpts{bf: 2, readOnly: true}, 900)
	if err != nil {
		return nil, err
	}
	return vScan(r)
}

func VerifH_C04_commit() {
	shape := symChoice("prefix", 4)
	nst := 1 + symChoice("nstmts", symParam("maxstmts", 2))
	kinds := make([]int, nst)
	for i := range kinds {
		kinds[i] = symChoice("kind", 4)
	}
	// reference run without a crash: pre, post, number of mutating requests
	ref := vNewBucket()
	vC04Prefix(ref, shape)
	pre, err := vFreshRows(ref)
	symAssert(err == nil, "pre-readable")
	preNames := vCurrentNames(ref)
	m0 := ref.muts
	symAssert(vC04Txn(ref, kinds), "reference-commit-ok")
	total := ref.muts - m0
	post, err := vFreshRows(ref)
	symAssert(err == nil, "post-readable")
	symObserve("mutating_requests", total)

	// the same transaction with a crash before mutating request number k
	bkt := vNewBucket()
	vC04Prefix(bkt, shape)
	k := symInt("crash")
	symAssume(k >= 0)
	symAssume(k <= total)
	bkt.crashOn, bkt.crashAt = true, bkt.muts+k
	acked := vC04Txn(bkt, kinds)
	bkt.crashOn, bkt.dead = false, false
	symObserve("acked", acked)

	// (1) a read-only open succeeds and shows old or new contents
	got, err := vFreshRows(bkt)
	symAssert(err == nil, "recovery-readonly-open-succeeds")
	isPre, isPost := vRowsEq(got, pre), vRowsEq(got, post)
	symAssert(symOr(isPre, isPost), "old-or-new-never-a-mixture")
	// (2) an acknowledged commit is durable
	if acked {
		symAssert(isPost, "acknowledged-commit-is-visible")
	}
	// (3) a writable recovery open succeeds and changes nothing visible
	rw, err := vOpen(bkt.client(2), vTableOpts{bf: 2}, 950)
	symAssert(err == nil, "recovery-writable-open-succeeds")
	rows2, err := vScan(rw)
	symAssert(err == nil, "recovery-writable-scan-ok")
	symAssert(vRowsEq(rows2, got), "recovery-open-shows-same-rows")
	got3, err := vFreshRows(bkt)
	symAssert(err == nil, "after-recovery-readable")
	symAssert(vRowsEq(got3, got), "after-recovery-same-rows")
	// C11: the versions that were current before the transaction still denote
	// the rows they denoted then, whatever the crash interrupted
	if len(preNames) > 0 {
		byName, err := vOpen(bkt.fork().client(6), vTableOpts{bf: 2, readOnly: true, versions: preNames}, 990)
		symAssert(err == nil, "earlier-version-still-opens-by-name")
		rowsByName, err := vScan(byName)
		symAssert(err == nil, "earlier-version-still-readable-by-name")
		symAssert(vRowsEq(rowsByName, pre), "earlier-version-denotes-the-same-rows")
	}
	symReach("end")
}

// vC04VacuumSetup: a table with live rows and an old deleted row, all committed.
func vC04VacuumSetup(bkt *vBucket, shape int) *VirtualTable {
	w := vMustOpen(bkt.client(1), vTableOpts{bf: 2}, 1000)
	must := func(err error) {
		if err != nil {
			panic(err)
		}
	}
	must(vIns(w, 2000, int64(1), int64(10), nil))
	must(w.Commit(vCtx))
	must(vIns(w, 2100, int64(2), int64(20), nil))
	must(w.Commit(vCtx))
	if shape >= 1 {
		must(w.Delete(vAt(2200), int64(2)))
		must(w.Commit(vCtx))
	}
	if shape >= 2 {
		must(vIns(w, 2300, int64(3), int64(30), nil))
		must(vIns(w, 2301, int64(4), int64(40), nil))
		must(w.Commit(vCtx))
	}
	return w
}

// H04 (vacuum): a crash before any mutating request of s3db_vacuum leaves the
// table readable with exactly the rows it had (vacuum never changes contents,
// so old == new here).
func VerifH_C04_vacuum() {
	shape := symChoice("shape", 3)
	cutKind := symChoice("cutoff", 3)
	cut := []int64{1500, 2250, 5000}[cutKind]
	// reference run: number of mutating requests vacuum performs
	ref := vNewBucket()
	rw := vC04VacuumSetup(ref, shape)
	tables["t"] = rw
	pre, err := vScan(rw)
	symAssert(err == nil, "pre-scan-ok")
	m0 := ref.muts
	symAssert(Vacuum(vCtx, "t", time.Unix(0, cut)) == nil, "reference-vacuum-ok")
	total := ref.muts - m0
	symObserve("mutating_requests", total)
	// the versions this vacuum keeps (the ones it removes may be half-removed
	// after a crash: their nodes go first, their version objects last)
	kept := map[string]bool{}
	for _, n := range ref.names(vPrefix + "/root/") {
		kept[n] = true
	}

	bkt := vNewBucket()
	w := vC04VacuumSetup(bkt, shape)
	tables["t"] = w
	k := symInt("crash")
	symAssume(k >= 0)
	symAssume(k <= total)
	bkt.crashOn, bkt.crashAt = true, bkt.muts+k
	verr := Vacuum(vCtx, "t", time.Unix(0, cut))
	bkt.crashOn, bkt.dead = false, false
	symObserve("vacuum_acked", verr == nil)
	got, err := vFreshRows(bkt)
	symAssert(err == nil, "recovery-readonly-open-succeeds")
	symAssert(vRowsEq(got, pre), "rows-intact-after-crash-in-vacuum")
	rw2, err := vOpen(bkt.client(2), vTableOpts{bf: 2}, 9500)
	symAssert(err == nil, "recovery-writable-open-succeeds")
	rows2, err := vScan(rw2)
	symAssert(err == nil, "recovery-writable-scan-ok")
	symAssert(vRowsEq(rows2, pre), "recovery-open-shows-same-rows")
	symAssert(vVersionsReadable(bkt, kept), "kept-versions-readable-after-crash")
	symReach("end")
}

func vCurrentNames(bkt *vBucket) []string {
	pfx := vPrefix + "/root/current/"
	var out []string
	for _, n := range bkt.names(pfx) {
		out = append(out, n[len(pfx):])
	}
	return out
}
