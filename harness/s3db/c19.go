package s3db

// C19 — independent connections from different threads: the two process-wide
// structures (the table registry and the lazily created in-memory store) are
// only touched under their mutexes, every path releases what it acquired,
// nothing deadlocks, and the registry ends up as after some sequential order.

func VerifH_C19_registry() {
	symStub("convertSchema", true)
	symStub("UnquoteAll", true)
	vC20SchemaOK = true
	symGuard("github.com/jrhy/s3db.tables", "github.com/jrhy/s3db.tableLock")
	symGuard("github.com/jrhy/s3db.inMemoryS3", "github.com/jrhy/s3db.inMemoryS3Lock")
	symGuard("github.com/jrhy/s3db.inMemoryBucket", "github.com/jrhy/s3db.inMemoryS3Lock")
	bkt := vNewBucket()
	symS3Register(bkt.client(1))
	sameName := symChoice("same-name", 2) == 1
	var created, failed [2]bool
	var got [2]*VirtualTable
	for i := 0; i < 2; i++ {
		i := i
		name := "t"
		if !sameName {
			name = "t" + string(rune('1'+i))
		}
		symSpawn(1+i, func() {
			vt, err := New(vCtx, []string{name, "columns=a"})
			if err != nil {
				failed[i] = true
				return
			}
			created[i] = true
			got[i] = GetTable(name)
			if err := vt.Disconnect(); err != nil {
				panic(err)
			}
		})
	}
	symJoin()
	symAssert(symUnguardedAccesses() == 0, "shared-state-only-touched-under-its-mutex")
	symAssert(symLocksHeld() == 0, "every-path-releases-its-locks")
	symAssert(len(tables) == 0, "registry-empty-after-all-disconnects")
	for i := 0; i < 2; i++ {
		symAssert(created[i] || failed[i], "connection-finished")
		if created[i] && !sameName {
			symAssert(got[i] != nil && got[i].Name == "t"+string(rune('1'+i)), "lookup-returns-own-table")
		}
	}
	if !sameName {
		symAssert(created[0] && created[1], "independent-tables-both-created")
	} else {
		symAssert(created[0] || created[1], "one-of-two-same-named-creates-succeeds")
	}
	symReach("end")
}
