package s3db

// C13 — a read-only table never modifies the bucket.

import (
	"time"

	"github.com/jrhy/s3db/kv"
)

func VerifH_C13_readonly() {
	// bucket with 0..3 unmerged versions
	bkt := vNewBucket()
	nv := symChoice("versions", symParam("maxversions", 3)+1)
	// the versions may also be identical in content (two writers that stored
	// the same rows under the same write times): merging them in memory
	// leaves nothing to store
	same := nv >= 2 && symParam("twins", 1) == 1 && symChoice("identical-versions", 2) == 1
	for v := 0; v < nv; v++ {
		// each writer starts from an empty fork so the versions stay unmerged
		w2 := vMustOpen(vForkInto(bkt, v), vTableOpts{bf: 2}, int64(10+v))
		d := v
		if same {
			d = 0
		}
		if err := vIns(w2, int64(100+d), int64(d+1), int64(d), nil); err != nil {
			panic(err)
		}
		// and a row that is already deleted again (a vacuum would have work to do)
		if err := vIns(w2, int64(100+d), int64(40+d), int64(d), nil); err != nil {
			panic(err)
		}
		if err := w2.Delete(vAt(int64(150+d)), int64(40+d)); err != nil {
			panic(err)
		}
		if err := w2.Commit(vCtx); err != nil {
			panic(err)
		}
	}
	vMergeForks(bkt)
	// optionally a writer has merged them since: one current version with
	// superseded history behind it (something a vacuum could reclaim)
	merged := symParam("history", 1) == 1 && nv > 0 && symChoice("merged-history", 2) == 1
	if merged {
		mw := vMustOpen(bkt.client(9), vTableOpts{bf: 2}, 200)
		if err := vIns(mw, 210, 30, 3, nil); err != nil {
			panic(err)
		}
		if err := mw.Commit(vCtx); err != nil {
			panic(err)
		}
	}
	before := bkt.snapshot()
	m0 := bkt.muts
	ro, err := vOpen(bkt.client(1), vTableOpts{bf: 2, readOnly: true}, 500)
	symAssert(err == nil, "readonly-open-ok")
	tables["t"] = ro
	rows0, err := vScan(ro)
	symAssert(err == nil, "scan-ok")
	distinct := nv
	if same {
		distinct = 1
	}
	if merged {
		symAssert(len(rows0) == distinct+1, "sees-all-versions")
	} else {
		symAssert(len(rows0) == distinct, "sees-all-versions")
	}
	steps := symParam("steps", 2)
	for i := 0; i < steps; i++ {
		switch symChoice("op", 8) {
		case 0:
			_, err := ro.Insert(vAt(int64(1000+i)), map[int]interface{}{0: int64(50 + i), 1: int64(1), 2: nil})
			symAssert(err != nil, "insert-refused")
		case 1:
			if nv > 0 {
				err := ro.Update(vAt(int64(1000+i)), int64(1), map[int]interface{}{1: int64(99)})
				symAssert(err != nil, "update-refused")
			}
		case 2:
			if nv > 0 {
				err := ro.Delete(vAt(int64(1000+i)), int64(1))
				symAssert(err != nil, "delete-refused")
			}
		case 3:
			_ = ro.Begin(vCtx)
			_ = ro.Commit(vCtx)
		case 4:
			_ = ro.Begin(vCtx)
			_ = ro.Rollback()
		case 5:
			_ = Vacuum(vCtx, "t", time.Unix(0, 1<<40)) // may be refused or do nothing; it must not write
		case 6:
			_ = kv.DeleteHistoricVersions(vCtx, ro.Tree.Root, time.Unix(0, 1<<40))
		case 7:
			_, _ = ro.Tree.Root.Roots()
		}
		rows, err := vScan(ro)
		symAssert(err == nil, "scan-after-op-ok")
		symAssert(vRowsEq(rows, rows0), "visible-rows-unchanged")
	}
	symAssert(bkt.muts == m0, "no-put-or-delete-issued")
	after := bkt.snapshot()
	symAssert(len(after) == len(before), "bucket-unchanged")
	symReach("end")
}
