package s3db

// C11 — a version name denotes an immutable snapshot.

type vSnap struct {
	names []string
	rows  []vRow
}

func VerifH_C11_versions() {
	steps := symParam("steps", 3)
	bkt := vNewBucket()
	var h [2]*VirtualTable
	h[0] = vMustOpen(bkt.client(1), vTableOpts{bf: 2}, 1000)
	h[1] = vMustOpen(bkt.client(2), vTableOpts{bf: 2}, 1001)
	var snaps []vSnap
	snaps = append(snaps, vSnap{}) // the empty table, before anything was written
	snap := func(vt *VirtualTable) vSnap {
		names, err := vt.Tree.Root.Roots()
		symAssert(err == nil, "roots-ok")
		rows, err := vScan(vt)
		symAssert(err == nil, "scan-ok")
		return vSnap{names, rows}
	}
	for i := 0; i < steps; i++ {
		w := symChoice("writer", 2)
		vt := h[w]
		t := int64(2000 + 10*i)
		before := snap(vt)
		switch symChoice("op", 5) {
		case 0: // insert a row of its own and commit
			if symParam("faults", 0) == 1 && symChoice("faulty", 2) == 1 {
				// one storage fault at a symbolic request of the commit; a
				// transaction whose commit reports the failure is rolled
				// back and run again once the fault is gone
				symAssert(vt.Begin(vCtx) == nil, "begin-ok")
				symAssert(vIns(vt, t, int64(10*(w+1)+i), int64(i), nil) == nil, "insert-ok")
				f := symInt("fault")
				symAssume(f >= 0)
				symAssume(f < 6)
				bkt.faultOn, bkt.faultAt = true, bkt.reqs+f
				err := vt.Commit(vCtx)
				bkt.faultOn = false
				if err != nil {
					symAssert(vt.Rollback() == nil, "rollback-ok")
					symAssert(vt.Begin(vCtx) == nil, "begin-ok")
					symAssert(vIns(vt, t, int64(10*(w+1)+i), int64(i), nil) == nil, "insert-again-ok")
					symAssert(vt.Commit(vCtx) == nil, "commit-after-fault-ok")
				}
			} else {
				err := vIns(vt, t, int64(10*(w+1)+i), int64(i), nil)
				symAssert(err == nil, "insert-ok")
				symAssert(vt.Commit(vCtx) == nil, "commit-ok")
			}
			after := snap(vt)
			symAssert(!symDeepEq(before.names, after.names), "version-changes-when-contents-change")
		case 1: // update (or no-op when the row is not there) and commit
			symAssert(vt.Update(vAt(t), int64(10*(w+1)), map[int]interface{}{1: int64(100 + i)}) == nil, "update-ok")
			symAssert(vt.Commit(vCtx) == nil, "commit-ok")
			after := snap(vt)
			if vRowsEq(before.rows, after.rows) {
				symAssert(symDeepEq(before.names, after.names), "version-unchanged-by-statement-that-changes-nothing")
			} else {
				symAssert(!symDeepEq(before.names, after.names), "version-changes-when-contents-change")
			}
		case 2: // commit with nothing to commit
			symAssert(vt.Commit(vCtx) == nil, "commit-ok")
			after := snap(vt)
			symAssert(symDeepEq(before.names, after.names), "version-unchanged-by-empty-commit")
		case 3: // refresh: re-open from the bucket (merges what others committed)
			nt, err := vOpen(bkt.client(1+w), vTableOpts{bf: 2}, t)
			symAssert(err == nil, "refresh-ok")
			h[w] = nt
			after := snap(nt)
			// (after a commit that could not retire the version it superseded
			// that version is still listed as current, and the next open
			// merges it again under a new name: KF-C10-stale-current-root;
			// C11 does not quantify over faults)
			if vRowsEq(before.rows, after.rows) && bkt.faultsInjected == 0 {
				symAssert(symDeepEq(before.names, after.names), "version-unchanged-by-refresh-that-changes-nothing")
			}
		case 4: // read-only open by a third party: lists every version it merged
			ro, err := vOpen(bkt.fork().client(5), vTableOpts{bf: 2, readOnly: true}, t)
			symAssert(err == nil, "readonly-open-ok")
			cur := bkt.names(vPrefix + "/root/current/")
			names, err := ro.Tree.Root.Roots()
			symAssert(err == nil, "roots-ok")
			symAssert(len(names) == len(cur), "version-lists-every-merged-version")
			snaps = append(snaps, snap(ro))
		}
		snaps = append(snaps, snap(h[w]))
	}
	// every recorded version, re-read now, shows exactly the rows recorded then
	for _, s := range snaps {
		if len(s.names) == 0 {
			// the version of the still empty table: s3db_version() returns '[]',
			// which denotes the empty snapshot, not "whatever is current"
			s.names = []string{}
		}
		ro, err := vOpen(bkt.fork().client(6), vTableOpts{bf: 2, readOnly: true, versions: s.names}, 9000)
		symAssert(err == nil, "reopen-by-version-ok")
		rows, err := vScan(ro)
		symAssert(err == nil, "reopen-by-version-scan-ok")
		symAssert(vRowsEq(rows, s.rows), "version-denotes-the-rows-it-was-taken-at")
	}
	symAssert(len(bkt.rewrites) == 0, "version-objects-never-rewritten")
	symReach("end")
}
